"""Harnesses of the MIR->SMT engine (sorter module): each one builds a symbolic pre-state directly (one inductive
step from every state satisfying the representation invariant), runs the real function's MIR, and states the
post-condition as obligations.  A harness returns a dict with status pass / fail / inconclusive."""
import re
import time
import traceback

import z3

import symex
from symex import (Bound, Enum, Machine, Opaque, Ptr, Ref, Slice, State, Struct, Unsupported, VecM, Violation, bv)

U32MAX = 2 ** 32 - 1


def source_facts(repo):
    src = open(repo + "/src/sorter.rs").read()
    consts = {}
    for m in re.finditer(r"^\s*(?:pub(?:\([\w:]+\))? )?const (\w+): usize = ([^;]+);", src, re.M):
        expr = m.group(2).replace("_", "")
        if re.fullmatch(r"[\d\s*+()<-]+", expr):
            consts[m.group(1)] = eval(expr)
    m = re.search(r"((?:#\[[^\]]*\]\s*)*)struct EntryBound \{([^}]*)\}", src)
    if not m:
        raise Unsupported("struct EntryBound not found")
    if "repr(C)" not in m.group(1):
        raise Unsupported("EntryBound is not repr(C): layout not derivable")
    off, align = 0, 1
    for f in re.finditer(r"(\w+): (\w+)", m.group(2)):
        w = symex.W.get(f.group(2))
        if w is None:
            raise Unsupported("EntryBound field type " + f.group(2))
        b = w // 8
        off = (off + b - 1) // b * b + b
        align = max(align, b)
    size = (off + align - 1) // align * align
    fields = [f.group(1) for f in re.finditer(r"(\w+): (\w+)", m.group(2))]
    return consts, {"EntryBound": (size, align)}, fields


class Ctx:
    def __init__(self, fns, repo, dump=None):
        self.fns = fns
        self.consts, self.layout, self.bound_fields = source_facts(repo)
        self.ES, self.EA = self.layout["EntryBound"]
        self.local_types = set(re.findall(r"^(?:pub(?:\([\w:]+\))? )?(?:struct|enum|trait) (\w+)", open(repo + "/src/sorter.rs").read(), re.M)) | {"sorter"}
        self.dump = dump

    def fn(self, ty, meth):
        m = Machine(self.fns, self.consts, self.layout)
        m.local_types = self.local_types
        f = m.resolve("%s::%s" % (ty, meth))
        if f is None:
            raise Unsupported("function %s::%s not found in MIR" % (ty, meth))
        return f

    def machine(self, hooks=None, depth=80):
        m = Machine(self.fns, self.consts, self.layout, hooks=hooks, max_depth=depth)
        m.local_types = self.local_types
        if self.dump is not None:
            m.smt_dump = self.dump
        return m


def pins(ctx):
    """replay: pin the named symbolic inputs to a counterexample"""
    out = []
    for n, v in (getattr(ctx, "pin", None) or {}).items():
        if isinstance(v, int):
            out.append(z3.BitVec(n, 64) == bv(v))
        elif v in ("True", "False", "true", "false"):
            out.append(z3.Bool(n) == z3.BoolVal(v in ("True", "true")))
    return out


def entries_state(st, L, E, B, ctx, key=("O", "entries")):
    st.allocs["A0"] = {"size": L, "align": bv(ctx.EA), "live": True, "origin": "pre-state"}
    buf = Struct("EntryBoundAlignedBuffer", [Ptr("A0"), L], ["data", "len"])
    st.heap[key] = Struct("Entries", [buf, E, B], ["buffer", "entries_len", "bounds_count"])
    return key


def ri(L, E, B, ES, lmax):
    """representation invariant of Entries: 16 | L, 0 < L <= lmax, E + 16 B <= L (no wrap)"""
    return [z3.URem(L, bv(ES)) == bv(0), z3.UGE(L, bv(ES)), z3.ULE(L, bv(lmax)),
            z3.ULE(E, L), z3.ULE(B, z3.UDiv(L - E, bv(ES)))]



def spec_fits(X, E, B, k, d, ES):
    """specification of `fits` for a buffer of X bytes: the free gap holds one more bound and the bytes"""
    used = E + bv(ES) * B
    return z3.And(z3.UGE(X, used), z3.UGE(X - used, bv(ES) + k + d))


def shape(R, L, E, B, k, d, ES):
    """result length of Entries::insert started at length L: least doubling of L in which the entry fits"""
    return z3.And(spec_fits(R, E, B, k, d, ES),
                  z3.Or(R == L,
                        z3.And(R == bv(2) * L, z3.Not(spec_fits(L, E, B, k, d, ES))),
                        z3.And(z3.UGE(R, bv(4) * L), z3.Not(spec_fits(z3.LShR(R, 1), E, B, k, d, ES)))))


def recursion_contract(ctx, k, d, lcap):
    """hook for `Entries::insert`: the outermost call runs the real MIR; a nested (recursive) call is replaced by
    the induction hypothesis = the contract the outermost call is itself shown to satisfy (precondition obliged,
    strictly larger buffer obliged as the termination measure)."""
    def hook(mach, s, args, callee):
        nested = any(fr.fn.short == "insert" and "Entries" in fr.fn.args[0][1] for fr in s.frames[:-1]) or \
            (s.frames[-1].fn.short == "insert" and "Entries" in s.frames[-1].fn.args[0][1])
        ent = mach.read_loc(s, args[0].key, args[0].path)
        buf, ptr, L1 = buffer_of(s, ent)
        E1, B1 = ent.fields[1], ent.fields[2]
        if not nested:
            s.ghost["L_pre"] = L1
            return NotImplemented
        where = "recursive Entries::insert"
        a = s.allocs[ptr.alloc]
        mach.oblige(s, z3.And(z3.BoolVal(a["live"]), a["size"] == L1, a["align"] == bv(ctx.EA)), "rec-pre:len==allocation", where)
        mach.oblige(s, z3.And(z3.URem(L1, bv(ctx.ES)) == bv(0), z3.UGE(L1, bv(ctx.ES)), z3.ULE(L1, bv(lcap)),
                              z3.ULE(E1, L1), z3.ULE(B1, z3.UDiv(L1 - E1, bv(ctx.ES)))), "rec-pre:RI", where)
        mach.oblige(s, z3.UGT(L1, s.ghost["L_pre"]), "rec:termination-measure(buffer strictly larger)", where)
        mach.oblige(s, z3.And(args[1].len == k, args[2].len == d), "rec-pre:same-entry", where)
        R = mach.fresh("R")
        s.pc += [z3.URem(R, bv(ctx.ES)) == bv(0), shape(R, L1, E1, B1, k, d, ctx.ES)]
        a["live"] = False
        aid = "AI%d" % len(s.allocs)
        s.allocs[aid] = {"size": R, "align": bv(ctx.EA), "live": True, "origin": "induction hypothesis"}
        ent.fields[0] = Struct("EntryBoundAlignedBuffer", [Ptr(aid), R], ["data", "len"])
        ent.fields[1] = E1 + k + d
        ent.fields[2] = B1 + bv(1)
        s.ghost["by_induction"] = True
        s.ghost["trace"].append("insert(by-induction)")
        return [(s, Struct("()", []))]
    return hook


def buffer_of(st, ent):
    buf = ent.fields[0]
    return buf, buf.fields[0], buf.fields[1]


def check_ri_post(m, st, ent, ctx, lmax, where):
    buf, ptr, L = buffer_of(st, ent)
    E, B = ent.fields[1], ent.fields[2]
    a = st.allocs[ptr.alloc]
    m.oblige(st, z3.BoolVal(a["live"]), "post:buffer-live", where)
    m.oblige(st, z3.And(a["size"] == L, a["align"] == bv(ctx.EA)), "post:len==allocation", where)
    m.oblige(st, z3.And(z3.URem(L, bv(ctx.ES)) == bv(0), z3.UGE(L, bv(ctx.ES))), "post:RI-L", where)
    m.oblige(st, z3.And(z3.ULE(E, L), z3.ULE(B, z3.UDiv(L - E, bv(ctx.ES)))), "post:RI-gap", where)
    for aid, al in st.allocs.items():
        if aid != ptr.alloc:
            m.oblige(st, z3.BoolVal(not al["live"]), "post:leak(%s from %s)" % (aid, al["origin"]), where)
    return L, E, B, ptr.alloc


def run_harness(name, body):
    t0 = time.time()
    res = {"harness": name, "status": "pass"}
    m = None
    try:
        m = body(res)
    except Violation as v:
        res["status"] = "fail"
        ob = v.ob
        model = ob["model"]
        res["failed"] = {"kind": ob["kind"], "where": ob["where"], "cond": ob["cond"][:300]}
        res["model"] = {k_: v_ for k_, v_ in model.items() if "!" not in k_}
        res["trace"] = ob["state"].ghost["trace"][-12:]
        m = getattr(v, "machine", None)
    except Bound as b:
        res["status"] = "inconclusive"
        res["reason"] = "unwinding bound: " + str(b)
    except Unsupported as u:
        res["status"] = "inconclusive"
        res["reason"] = "encoding: " + str(u)
    except Exception as e:  # translator bug = inconclusive, never a pass
        res["status"] = "inconclusive"
        res["reason"] = "internal: %s: %s" % (type(e).__name__, e)
        res["tb"] = traceback.format_exc()[-1500:]
    res["seconds"] = round(time.time() - t0, 2)
    return res


def finish(res, m, covers):
    st = m.stats
    res.update(queries=st["queries"], obligations=st["obligations"], solver_s=round(st["solver_s"], 2),
               paths=st["paths"], pruned=st["pruned"], functions=sorted(st["functions"]),
               unmodelled=sorted(st["unmodelled"]), ob_kinds=st["ob_kinds"], covers=covers)
    missing = [k for k, v in covers.items() if not v]
    if missing and res["status"] == "pass":
        res["status"] = "inconclusive"
        res["reason"] = "vacuity: cover witnesses not reached: " + ", ".join(missing)


# ------------------------------------------------------------------------------------------------ H1
def h_entries_insert(ctx, lmax=2 ** 60, kmax=2 ** 33):
    """Entries::insert from every RI state, every key/data length (incl. > u32::MAX -> explicit panic only)"""
    def body(res):
        L, E, B, k, d = [z3.BitVec(n, 64) for n in "L E B k d".split()]
        m = ctx.machine(hooks={r"^Entries::insert$": recursion_contract(ctx, k, d, lmax * 4)})
        st = State()
        st.pc += ri(L, E, B, ctx.ES, lmax) + [z3.ULE(k, bv(kmax)), z3.ULE(d, bv(kmax))] + pins(ctx)
        key = entries_state(st, L, E, B, ctx)
        st.ghost["L_pre"] = L
        st.allocs["K"] = {"size": k, "align": bv(1), "live": True, "origin": "key"}
        st.allocs["D"] = {"size": d, "align": bv(1), "live": True, "origin": "data"}
        covers = {"no-realloc": False, "realloc-once": False, "realloc-3+": False, "exact-fit": False,
                  "panic-oversize": kmax <= U32MAX, "empty-key": False}

        def on_end(s, how):
            where = "end of Entries::insert"
            if how == "panic":
                ev = s.ghost["events"][-1]
                # the only panics allowed are the two explicit length assertions
                if "panic_fmt" in ev[2] and ev[1].startswith("new "):
                    return      # allocation failure: outside the claim
                m.oblige(s, z3.Or(z3.UGT(k, bv(U32MAX)), z3.UGT(d, bv(U32MAX))), "unexpected-panic:" + ev[2][:60], ev[1])
                covers["panic-oversize"] = True
                return
            ent = s.heap[key]
            for a in ("K", "D"):
                s.allocs[a]["live"] = False     # caller-owned, not part of the leak check
            L2, E2, B2, aid = check_ri_post(m, s, ent, ctx, lmax, where)
            m.oblige(s, z3.And(E2 == E + k + d, B2 == B + bv(1)), "post:counters", where)
            m.oblige(s, shape(L2, L, E, B, k, d, ctx.ES), "post:length==least-doubling-that-fits", where)
            if s.ghost.get("by_induction"):
                covers["realloc-once"] = True
                if m.feasible(s, z3.UGE(L2, bv(8) * L)):
                    covers["realloc-3+"] = True
                return
            stores = s.ghost["stores"]
            m.oblige(s, z3.BoolVal(len(stores) == 1), "post:exactly-one-bound-store", where)
            sl, idx, val = stores[0]
            m.oblige(s, z3.And(z3.BoolVal(sl.alloc == aid), sl.off == bv(0), idx == B), "post:bound-slot", where)
            ks, kl, dl = val.fields
            m.oblige(s, z3.And(ks == E2, z3.ZeroExt(32, kl) == k, z3.ZeroExt(32, dl) == d), "post:bound-value", where)
            # per-bound invariant PB consumed by the read paths (read_paths harness): klen + dlen <= key_start <= entries_len;
            # it is monotone in entries_len, so bounds stored earlier keep it
            m.oblige(s, z3.And(z3.ULE(z3.ZeroExt(32, kl) + z3.ZeroExt(32, dl), ks), z3.ULE(ks, E2), z3.UGE(E2, E)), "post:stored-bound-satisfies-PB", where)
            w = s.ghost["writes"]
            last = w[-2:]
            kw_ = [x for x in last if x[1].alloc == "K"]
            dw_ = [x for x in last if x[1].alloc == "D"]
            m.oblige(s, z3.BoolVal(len(kw_) == 1 and len(dw_) == 1), "post:key-and-value-each-copied-once", where)
            (d1, s1), (d2, s2) = kw_[0], dw_[0]
            m.oblige(s, z3.And(z3.BoolVal(d1.alloc == aid), d1.off == L2 - E2, d1.len == k, s1.off == bv(0),
                               z3.BoolVal(d2.alloc == aid), d2.off == L2 - E2 + k, d2.len == d, s2.off == bv(0)),
                     "post:entry-bytes-placement", where)
            # the new bytes do not overlap the bound table (incl. the new bound)
            m.oblige(s, z3.UGE(L2 - E2, bv(ctx.ES) * B2), "post:bytes-vs-bounds-overlap", where)
            n = s.ghost["trace"].count("reallocate_buffer")
            covers["no-realloc"] = True
            if n == 0 and m.feasible(s, L2 - E2 == bv(ctx.ES) * B2):
                covers["exact-fit"] = True
            if m.feasible(s, k == bv(0)):
                covers["empty-key"] = True
        m.on_end = on_end
        m.run(st, ctx.fn("Entries", "insert"), [Ref(key, ()), Slice("K", bv(0), k), Slice("D", bv(0), d)])
        res["bounds"] = "buffer length L <= 2^%d (multiple of 16), key/data length <= 2^%d, recursion depth <= %d frames (unwinding obligation)" % (
            lmax.bit_length() - 1, kmax.bit_length() - 1, m.max_depth)
        finish(res, m, covers)
        return m
    return run_harness("entries_insert_step", body)


# ------------------------------------------------------------------------------------------------ H2
def h_reallocate(ctx, lmax=2 ** 56):
    def body(res):
        m = ctx.machine()
        st = State()
        L, E, B = [z3.BitVec(n, 64) for n in "L E B".split()]
        st.pc += ri(L, E, B, ctx.ES, lmax) + pins(ctx)
        key = entries_state(st, L, E, B, ctx)
        covers = {"returned": False, "nonempty": False}

        def on_end(s, how):
            where = "end of reallocate_buffer"
            if how == "panic":
                ev = s.ghost["events"][-1]
                # only allocation failure may panic
                m.oblige(s, z3.BoolVal("panic_fmt" in ev[2] and ev[1].startswith("new ")), "unexpected-panic", ev[1])
                return
            ent = s.heap[key]
            L2, E2, B2, aid = check_ri_post(m, s, ent, ctx, lmax * 2, where)
            m.oblige(s, z3.And(L2 == L * bv(2), E2 == E, B2 == B, z3.BoolVal(aid != "A0")), "post:doubling", where)
            w = list(s.ghost["writes"])
            m.oblige(s, z3.BoolVal(len(w) <= 2), "post:at-most-two-copies", where)

            def is_bounds(dw, sw):
                return z3.And(z3.BoolVal(dw.alloc == aid and sw.alloc == "A0"), dw.off == bv(0), sw.off == bv(0), dw.len == bv(ctx.ES) * B)

            def is_bytes(dw, sw):
                return z3.And(z3.BoolVal(dw.alloc == aid and sw.alloc == "A0"), dw.off == L2 - E, sw.off == L - E, dw.len == E)
            if len(w) == 2:
                if not m.feasible(s, z3.Not(is_bytes(*w[0]))):
                    w = [w[1], w[0]]        # the two copies may come in either order
                m.oblige(s, is_bounds(*w[0]), "post:bounds-copied", where)
                m.oblige(s, is_bytes(*w[1]), "post:bytes-copied-to-back", where)
            elif len(w) == 1:
                # one copy may be skipped only when its region is empty
                if not m.feasible(s, z3.Not(is_bounds(*w[0]))):
                    m.oblige(s, E == bv(0), "post:bytes-copy-skipped-only-when-empty", where)
                else:
                    m.oblige(s, is_bytes(*w[0]), "post:bytes-copied-to-back", where)
                    m.oblige(s, B == bv(0), "post:bounds-copy-skipped-only-when-empty", where)
            else:
                m.oblige(s, z3.And(E == bv(0), B == bv(0)), "post:copies-skipped-only-when-buffer-empty", where)
            covers["returned"] = True
            if m.feasible(s, z3.And(E != bv(0), B != bv(0))):
                covers["nonempty"] = True
        m.on_end = on_end
        m.run(st, ctx.fn("Entries", "reallocate_buffer"), [Ref(key, ())])
        res["bounds"] = "L <= 2^%d" % (lmax.bit_length() - 1)
        finish(res, m, covers)
        return m
    return run_harness("entries_reallocate_step", body)


# ------------------------------------------------------------------------------------------------ H3
def h_new_drop(ctx, smax=2 ** 62):
    def body(res):
        m = ctx.machine()
        st = State()
        size = z3.BitVec("size", 64)
        st.pc += [z3.UGE(size, bv(1)), z3.ULE(size, bv(smax))] + pins(ctx)
        covers = {"returned": False, "not-multiple": False, "dropped": False}
        dropf = m.resolve("<EntryBoundAlignedBuffer as Drop>::drop")
        deref = m.resolve("<EntryBoundAlignedBuffer as Deref>::deref")
        derefm = m.resolve("<EntryBoundAlignedBuffer as DerefMut>::deref_mut")
        phase = {"n": 0}

        def on_end(s, how):
            if how == "panic":
                ev = s.ghost["events"][-1]
                m.oblige(s, z3.BoolVal("panic_fmt" in ev[2] and ev[1].startswith("new ")), "unexpected-panic", ev[1])
                return
            tag = s.ghost.get("phase", 0)
            if tag == 0:
                buf = s.ghost["ret"]
                ptr, ln = buf.fields
                a = s.allocs[ptr.alloc]
                where = "end of EntryBoundAlignedBuffer::new"
                m.oblige(s, z3.And(z3.UGE(ln, size), z3.ULT(ln - size, bv(ctx.ES)), z3.URem(ln, bv(ctx.ES)) == bv(0)),
                         "post:len==ceil16(size)", where)
                m.oblige(s, z3.And(a["size"] == ln, a["align"] == bv(ctx.EA), z3.BoolVal(a["live"])), "post:len==allocation", where)
                covers["returned"] = True
                if m.feasible(s, ln != size):
                    covers["not-multiple"] = True
                for nxt, f in ((1, deref), (2, derefm), (3, dropf)):
                    s2 = s.fork()
                    s2.heap[("O", "buf")] = buf
                    s2.ghost["phase"] = nxt
                    s2.ghost["buf"] = (ptr.alloc, ln)
                    m.run(s2, f, [Ref(("O", "buf"), ())])
            elif tag in (1, 2):
                sl = s.ghost["ret"]
                aid, ln = s.ghost["buf"]
                m.oblige(s, z3.And(z3.BoolVal(sl.alloc == aid), sl.off == bv(0), sl.len == ln), "post:deref-is-whole-buffer",
                         "end of deref")
            else:
                aid, ln = s.ghost["buf"]
                m.oblige(s, z3.BoolVal(not s.allocs[aid]["live"]), "post:freed", "end of drop")
                covers["dropped"] = True
        m.on_end = on_end
        m.run(st, ctx.fn("EntryBoundAlignedBuffer", "new"), [size])
        res["bounds"] = "1 <= size <= 2^%d" % (smax.bit_length() - 1)
        finish(res, m, covers)
        return m
    return run_harness("buffer_new_deref_drop", body)


# ------------------------------------------------------------------------------------------------ sorter
def sorter_inv(L, E, B, T, R, M, c, ES, init, tmax):
    """inductive invariant of the Sorter between public calls"""
    return [z3.URem(L, bv(ES)) == bv(0), z3.ULE(E, L), z3.ULE(B, z3.UDiv(L - E, bv(ES))),
            z3.UGE(T, bv(init)), z3.ULE(T, bv(tmax)), z3.UGE(M, bv(1)),
            z3.If(R, z3.And(z3.UGE(L, bv(init)), z3.ULT(L, bv(2) * T)),
                  z3.And(z3.UGE(L, T), z3.ULT(L - T, bv(ES)))),
            z3.ULE(c, z3.If(z3.UGT(M, bv(1)), M - bv(1), bv(1)))]


def build_sorter(ctx, m, st, x, use_thr, r, use_r, n, use_n):
    """drive SorterBuilder::new -> [dump_threshold] -> [allow_realloc] -> [max_nb_chunks] -> build through MIR"""
    done = {}

    def run1(s, f, args):
        out = []
        old = m.on_end
        m.on_end = lambda s2, how: out.append((s2, how))
        m.run(s, f, args)
        m.on_end = old
        good = [s2 for s2, how in out if how == "return"]
        return good
    sts = run1(st, ctx.fn("SorterBuilder", "new"), [Opaque("merge fn")])
    assert len(sts) == 1
    s = sts[0]
    s.heap[("O", "builder")] = s.ghost["ret"]
    rb = Ref(("O", "builder"), ())
    if use_thr:
        (s,) = run1(s, ctx.fn("SorterBuilder", "dump_threshold"), [rb, x])
    if use_r:
        (s,) = run1(s, ctx.fn("SorterBuilder", "allow_realloc"), [rb, r])
    if use_n:
        (s,) = run1(s, ctx.fn("SorterBuilder", "max_nb_chunks"), [rb, n])
    outs = run1(s, ctx.fn("SorterBuilder", "build"), [s.heap[("O", "builder")]])
    return outs


def h_sorter_base(ctx, tmax=2 ** 40):
    def body(res):
        m = ctx.machine()
        covers = {"defaults": False, "all-set": False, "clamped-budget": False, "no-realloc": False}
        x, n = z3.BitVec("x", 64), z3.BitVec("n", 64)
        r = z3.Bool("r")
        init = ctx.consts["INITIAL_SORTER_VEC_SIZE"]
        for use_thr in (False, True):
            for use_r in (False, True):
                for use_n in (False, True):
                    st = State()
                    st.pc += [z3.ULE(x, bv(tmax))] + pins(ctx)
                    for s in build_sorter(ctx, m, st, x, use_thr, r, use_r, n, use_n):
                        so = s.ghost["ret"]
                        f = dict(zip(so.names, so.fields))
                        ent = f["entries"]
                        buf, ptr, L = buffer_of(s, ent)
                        E, B = ent.fields[1], ent.fields[2]
                        T, R, M, c = f["dump_threshold"], f["allow_realloc"], f["max_nb_chunks"], f["chunks"].len
                        where = "end of SorterBuilder::build (%d%d%d)" % (use_thr, use_r, use_n)
                        check_ri_post(m, s, ent, ctx, tmax * 2, where)
                        m.oblige(s, z3.And(E == bv(0), B == bv(0), c == bv(0)), "base:empty", where)
                        m.oblige(s, z3.And(sorter_inv(L, E, B, T, R, M, c, ctx.ES, init, tmax)), "base:invariant", where)
                        if use_thr:
                            m.oblige(s, z3.And(z3.UGE(T, x), z3.UGE(T, bv(ctx.consts["MIN_SORTER_MEMORY"])),
                                               z3.Or(T == x, T == bv(ctx.consts["MIN_SORTER_MEMORY"]))),
                                     "base:budget==max(request,minimum)", where)
                            if m.feasible(s, T != x):
                                covers["clamped-budget"] = True
                        if use_n:
                            m.oblige(s, z3.And(z3.UGE(M, n), z3.Or(M == n, M == bv(1))), "base:max_nb_chunks==max(n,1)", where)
                        if use_r and m.feasible(s, z3.Not(R)):
                            covers["no-realloc"] = True
                        covers["defaults" if not (use_thr or use_r or use_n) else "all-set" if (use_thr and use_r and use_n) else "defaults"] = True
                        res.setdefault("field_index", {nm: i for i, nm in enumerate(so.names)})
        res["bounds"] = "requested budget <= 2^%d; all 8 subsets of {dump_threshold, allow_realloc, max_nb_chunks} called" % (tmax.bit_length() - 1)
        finish(res, m, covers)
        return m
    return run_harness("sorter_build_base", body)


def h_sorter_insert(ctx, tmax=2 ** 36, frac=4):
    """one Sorter::insert from every state satisfying the invariant; write_chunk / merge_chunks by contract"""
    def body(res):
        init = ctx.consts["INITIAL_SORTER_VEC_SIZE"]
        L, E, B, T, M, c, k, d, tot = [z3.BitVec(nm, 64) for nm in "L E B T M c k d total".split()]
        R = z3.Bool("R")
        covers = {"fits": False, "grow": False, "spill": False, "spill+merge": False, "spill-error": False,
                  "no-realloc-spill": False}

        def write_chunk(mach, s, args, callee):
            so = mach.read_loc(s, args[0].key, args[0].path)
            f = dict(zip(so.names, range(len(so.names))))
            out = []
            # Err: creator or writer failed (live chunks unchanged or +1 transiently)
            s_err = s.fork()
            s_err.ghost["created"] += 1
            s_err.ghost["events"].append(("spill-error", "", ""))
            out.append((s_err, Enum(bv(1), {"Err": (1, [Opaque("error")])})))
            ent0 = so.fields[f["entries"]]
            if mach.feasible(s, z3.And(ent0.fields[1] == bv(0), ent0.fields[2] == bv(0))):
                s_nop = s.fork()        # "nothing to spill": allowed by the contract only when the buffer is empty
                s_nop.pc.append(z3.And(ent0.fields[1] == bv(0), ent0.fields[2] == bv(0)))
                s_nop.ghost["events"].append(("spill", "", ""))
                out.append((s_nop, Enum(bv(0), {"Ok": (0, [bv(0)])})))
            s_ok = s
            s_ok.ghost["created"] += 1
            s_err.ghost["live_max"] = z3.If(z3.UGT(so.fields[f["chunks"]].len + bv(1), s_err.ghost["live_max"]), so.fields[f["chunks"]].len + bv(1), s_err.ghost["live_max"])
            ch = so.fields[f["chunks"]]
            s_ok.ghost["live_max"] = z3.If(z3.UGT(ch.len + bv(1), s_ok.ghost["live_max"]), ch.len + bv(1), s_ok.ghost["live_max"])
            ch.len = ch.len + bv(1)
            ent = so.fields[f["entries"]]
            ent.fields[1] = bv(0)
            ent.fields[2] = bv(0)
            s_ok.ghost["events"].append(("spill", "", ""))
            w = mach.fresh("written")
            s_ok.pc.append(z3.ULE(w, bv(2 ** 62)))
            out.append((s_ok, Enum(bv(0), {"Ok": (0, [w])})))
            return out

        def merge_chunks(mach, s, args, callee):
            so = mach.read_loc(s, args[0].key, args[0].path)
            f = dict(zip(so.names, range(len(so.names))))
            ch = so.fields[f["chunks"]]
            s.ghost["created"] += 1
            s.ghost["live_max"] = z3.If(z3.UGT(ch.len + bv(1), s.ghost["live_max"]), ch.len + bv(1), s.ghost["live_max"])
            s_err = s.fork()
            s_err.ghost["events"].append(("merge-error", "", ""))
            ch.len = bv(1)
            s.ghost["events"].append(("merge", "", ""))
            w = mach.fresh("merged")
            return [(s_err, Enum(bv(1), {"Err": (1, [Opaque("error")])})), (s, Enum(bv(0), {"Ok": (0, [w])}))]

        m = ctx.machine(hooks={r"::write_chunk$": write_chunk, r"::merge_chunks$": merge_chunks,
                               r"^Entries::insert$": recursion_contract(ctx, k, d, tmax * 8)})
        # field layout of Sorter from the build aggregate
        st0 = State()
        so = build_sorter(ctx, m, st0, bv(0), False, True, False, bv(0), False)[0].ghost["ret"]
        names = so.names
        st = State()
        st.pc += sorter_inv(L, E, B, T, R, M, c, ctx.ES, init, tmax)
        st.pc += [z3.ULE(bv(ctx.ES) + k + d, z3.UDiv(T, bv(frac))), z3.ULE(k, T), z3.ULE(d, T), z3.ULE(tot, bv(2 ** 62)),
                  z3.ULE(M, bv(2 ** 32))] + pins(ctx)
        entries_state(st, L, E, B, ctx, key=("O", "tmp"))
        ent = st.heap.pop(("O", "tmp"))
        vals = []
        for nm in names:
            vals.append({"chunks": VecM(c), "entries": ent, "chunks_total_size": tot, "allow_realloc": R,
                         "dump_threshold": T, "max_nb_chunks": M}.get(nm, Opaque(nm)))
        st.heap[("O", "sorter")] = Struct("Sorter", vals, names)
        st.heap[("O", "key")] = Slice("K", bv(0), k)
        st.heap[("O", "val")] = Slice("D", bv(0), d)
        st.allocs["K"] = {"size": k, "align": bv(1), "live": False, "origin": "key"}
        st.allocs["D"] = {"size": d, "align": bv(1), "live": False, "origin": "data"}
        st.ghost["live_max"] = c

        def on_end(s, how):
            where = "end of Sorter::insert"
            if how == "panic":
                ev = s.ghost["events"][-1]
                if "panic_fmt" in ev[2] and ev[1].startswith("new "):
                    return      # allocation failure: outside the claim
                m.oblige(s, z3.Or(z3.UGT(k, bv(U32MAX)), z3.UGT(d, bv(U32MAX))), "unexpected-panic:" + ev[2][:50], ev[1])
                return
            ret = s.ghost["ret"]
            evs = [e[0] for e in s.ghost["events"]]
            # live chunks never exceed max + 2 at any point of the call, error paths included
            m.oblige(s, z3.ULE(s.ghost["live_max"], M + bv(2)), "C08:live-chunks<=max+2", where)
            is_err = z3.is_bv_value(z3.simplify(ret.discr)) and z3.simplify(ret.discr).as_long() == 1
            if is_err:
                covers["spill-error"] = True
                return
            so2 = s.heap[("O", "sorter")]
            f = dict(zip(so2.names, so2.fields))
            ent2 = f["entries"]
            L2, E2, B2, aid = check_ri_post(m, s, ent2, ctx, tmax * 4, where)
            c2 = f["chunks"].len
            m.oblige(s, z3.And(f["dump_threshold"] == T, f["max_nb_chunks"] == M, f["allow_realloc"] == R), "post:config-unchanged", where)
            m.oblige(s, z3.And(sorter_inv(L2, E2, B2, T, R, M, c2, ctx.ES, init, tmax)), "C08:invariant-reestablished", where)
            spilled = "spill" in evs
            # volume inserted since the last spill == entries_len (cleared by the spill, += k+d by Entries::insert)
            m.oblige(s, E2 == z3.If(z3.BoolVal(spilled), k + d, E + k + d), "C08:volume-ghost==entries_len", where)
            m.oblige(s, z3.If(R, z3.ULE(E2, bv(2) * T), z3.ULE(E2, T)), "C08:unspilled-volume<=budget(x2 if realloc)", where)
            # a spill happens only when the entry does not fit; every spill went through write_chunk -> create
            if spilled:
                m.oblige(s, z3.UGT(bv(ctx.ES) + k + d, L - E - bv(ctx.ES) * B), "C08:spill-only-when-full", where)
                covers["spill+merge" if "merge" in evs else "spill"] = True
                if m.feasible(s, z3.Not(R)):
                    covers["no-realloc-spill"] = True
            elif "reallocate_buffer" in s.ghost["trace"]:
                covers["grow"] = True
                m.oblige(s, z3.And(R, z3.ULT(L, T)), "C08:growth-only-below-budget-and-when-allowed", where)
            else:
                covers["fits"] = True
        m.on_end = on_end
        m.run(st, ctx.fn("Sorter", "insert"), [Ref(("O", "sorter"), ()), st.heap[("O", "key")], st.heap[("O", "val")]])
        res["bounds"] = ("budget T <= 2^%d, entry footprint 16+k+d <= T/%d, max_nb_chunks <= 2^32, recursion <= %d frames; "
                         "write_chunk/merge_chunks replaced by their counter contracts (discharged by sorter_spill_contracts)"
                         % (tmax.bit_length() - 1, frac, m.max_depth))
        finish(res, m, covers)
        return m
    return run_harness("sorter_insert_step", body)


# ------------------------------------------------------------------------------------------------ spill contracts
def h_spill_contracts(ctx, tmax=2 ** 36):
    """the counter contracts under which sorter_insert_step uses write_chunk / merge_chunks, discharged against
    their real MIR in counter-abstraction mode: everything except (create calls, chunks.len(), entries_len,
    bounds_count, the buffer) is nondeterministic; loops are closed when the abstract state repeats."""
    def body(res):
        init = ctx.consts["INITIAL_SORTER_VEC_SIZE"]
        covers = {"write_chunk-ok": False, "write_chunk-err": False, "merge_chunks-ok": False, "merge_chunks-err": False,
                  "loop-closed": False}
        total = {"m": None}
        for which in ("write_chunk", "merge_chunks"):
            L, E, B, T, M, c, tot = [z3.BitVec(nm, 64) for nm in "L E B T M c total".split()]
            R = z3.Bool("R")

            def create(mach, s, args, callee):
                s.ghost["created"] += 1
                s.ghost["events"].append(("create", "", ""))
                return [(s, Opaque("Result<Chunk, Error>"))]

            def noeffect(mach, s, args, callee):
                # sorting permutes the bound table, iter only reads: neither touches the counters (their own MIR is the subject of C17's harnesses)
                return [(s, Opaque("sorted / iterator"))]
            m = ctx.machine(hooks={r"as ChunkCreator>::create$": create, r"^Entries::(par_)?sort_by_key$": noeffect, r"^Entries::iter$": noeffect})
            m.abstract = True
            st0 = State()
            so = build_sorter(ctx, m, st0, bv(0), False, True, False, bv(0), False)[0].ghost["ret"]
            names = so.names
            st = State()
            st.pc += sorter_inv(L, E, B, T, R, M, c, ctx.ES, init, tmax) + [z3.ULE(c, bv(2 ** 32))] + pins(ctx)
            entries_state(st, L, E, B, ctx, key=("O", "tmp"))
            ent = st.heap.pop(("O", "tmp"))
            vals = [{"chunks": VecM(c), "entries": ent, "chunks_total_size": tot, "allow_realloc": R, "dump_threshold": T,
                     "max_nb_chunks": M}.get(nm, Opaque(nm)) for nm in names]
            st.heap[("O", "sorter")] = Struct("Sorter", vals, names)
            ci, ei = names.index("chunks"), names.index("entries")
            m.tracked = [(("O", "sorter"), (("f", ci),)), (("O", "sorter"), (("f", ei),))]

            def sig_extra(s):
                so2 = s.heap[("O", "sorter")]
                e2 = so2.fields[ei]
                return "%s|%s|%s" % (z3.simplify(so2.fields[ci].len), e2.fields[1], e2.fields[2])
            m.sig_extra = sig_extra

            def on_end(s, how, which=which):
                where = "end of Sorter::" + which
                if how == "panic":
                    ev = s.ghost["events"][-1]
                    m.oblige(s, z3.BoolVal(False), "unexpected-panic:" + ev[2][:50], ev[1])
                    return
                ret = s.ghost["ret"]
                so2 = s.heap[("O", "sorter")]
                ent2 = so2.fields[ei]
                c2 = so2.fields[ci].len
                L2, E2, B2, aid = check_ri_post(m, s, ent2, ctx, tmax * 4, where)
                m.oblige(s, z3.And(L2 == L, z3.BoolVal(aid == "A0")), "contract:buffer-untouched", where)
                d = z3.simplify(ret.discr)
                if not z3.is_bv_value(d):
                    raise Unsupported("return value of %s is not a definite Ok/Err" % which)
                evs = [e[0] for e in s.ghost["events"]]
                if d.as_long() == 0:
                    pushes = evs.count("chunks.push")
                    if which == "write_chunk" and s.ghost["created"] == 0:
                        # allowed only as "nothing to spill": no chunk appears and the buffer was already empty
                        m.oblige(s, z3.And(z3.BoolVal(pushes == 0), c2 == c, E == bv(0), B == bv(0), E2 == bv(0), B2 == bv(0)),
                                 "contract:write_chunk-without-create-only-when-buffer-empty", where)
                        covers[which + "-ok"] = True
                        return
                    m.oblige(s, z3.BoolVal(s.ghost["created"] == 1 and pushes == 1), "contract:exactly-one-create-and-one-push-per-successful-%s" % which, where)
                    m.oblige(s, z3.BoolVal(evs.index("create") < evs.index("chunks.push")), "contract:pushed-chunk-comes-from-the-creator", where)
                    if which == "write_chunk":
                        m.oblige(s, z3.And(c2 == c + bv(1), E2 == bv(0), B2 == bv(0)), "contract:write_chunk(one chunk pushed, buffer cleared)", where)
                    else:
                        m.oblige(s, z3.And(c2 == bv(1), E2 == E, B2 == B), "contract:merge_chunks(one chunk left, buffer untouched)", where)
                        m.oblige(s, z3.BoolVal("RangeFull" in "".join(e[2] for e in s.ghost["events"] if e[0] == "chunks.drain")),
                                 "contract:merge drains the whole list", where)
                    covers[which + "-ok"] = True
                else:
                    m.oblige(s, z3.BoolVal(s.ghost["created"] <= 1), "contract:at-most-one-create", where)
                    m.oblige(s, z3.ULE(c2, c + bv(1)), "contract:error-exit-does-not-add-chunks", where)
                    covers[which + "-err"] = True
            m.on_end = on_end
            m.run(st, ctx.fn("Sorter", which), [Ref(("O", "sorter"), ())])
            if m.stats.get("loops_closed"):
                covers["loop-closed"] = True
            if total["m"] is None:
                total["m"] = m
            else:
                t = total["m"].stats
                for k_ in ("queries", "obligations", "solver_s", "paths", "pruned"):
                    t[k_] += m.stats[k_]
                t["functions"] |= m.stats["functions"]
                t["unmodelled"] |= m.stats["unmodelled"]
                for k_, v_ in m.stats["ob_kinds"].items():
                    t["ob_kinds"][k_] = t["ob_kinds"].get(k_, 0) + v_
        res["bounds"] = ("counter abstraction of write_chunk and merge_chunks: every value except create calls, chunks.len(), entries_len, bounds_count and the buffer is "
                         "nondeterministic (both outcomes of every Result / Option / comparison), loops closed by abstract-state fixpoint; chunks.len() <= 2^32")
        finish(res, total["m"], covers)
        return total["m"]
    return run_harness("sorter_spill_contracts", body)


# ------------------------------------------------------------------------------------------------ read paths
def h_read_paths(ctx, lmax=2 ** 60):
    """Entries::iter / sort_by_key and their closures: the slices handed out for ANY stored bound satisfying the per-bound
    invariant PB (established by entries_insert_step) lie inside the byte region of the live buffer"""
    def body(res):
        L, E, B, ks, alg = [z3.BitVec(n, 64) for n in "L E B ks alg".split()]
        kl, dl = z3.BitVec("kl", 32), z3.BitVec("dl", 32)
        covers = {"iter": False, "iter-closure": False, "sort": False, "sort-closure": False, "empty-key": False}
        cl_iter = [f for f in ctx.fns if f.name.startswith("sorter::") and f.name.endswith("::iter::{closure#0}")]
        cl_sort = [f for f in ctx.fns if f.name.startswith("sorter::") and f.name.endswith("::sort_by_key::{closure#0}")]
        if len(cl_iter) != 1 or len(cl_sort) != 1:
            raise Unsupported("closures of Entries::iter / sort_by_key not found in the MIR")

        def check_split(mach, s, bounds, tail, where):
            mach.oblige(s, z3.And(z3.BoolVal(isinstance(bounds, Slice) and bounds.alloc == "A0" and bounds.esz == ctx.ES),
                                  bounds.off == bv(0), bounds.len == B), "read:bound-table-is-the-first-B-slots", where)
            mach.oblige(s, z3.And(z3.BoolVal(isinstance(tail, Slice) and tail.alloc == "A0"), tail.off == bv(ctx.ES) * B,
                                  tail.len == L - bv(ctx.ES) * B), "read:tail-is-the-rest-of-the-buffer", where)

        def run_closure(mach, s, cfn, cl, phase):
            s2 = s.fork()
            s2.frames = []
            s2.heap[("O", "cl")] = cl
            s2.heap[("O", "bound")] = Struct("EntryBound", [ks, kl, dl], ctx.bound_fields)
            s2.ghost["phase"] = phase
            mach.run(s2, cfn, [Ref(("O", "cl"), ()), Ref(("O", "bound"), ())])

        def slice_iter(mach, s, args, callee):
            return [(s, args[0])]

        def map_hook(mach, s, args, callee):
            sl, cl = args
            check_split(mach, s, sl, cl.fields[0], "Entries::iter")
            run_closure(mach, s, cl_iter[0], cl, "iter")
            return [(s, Opaque("Map iterator"))]

        def fnptr(mach, s, args, callee):
            sl, cl = args
            tail = cl.fields[0]
            tail = mach.read_loc(s, tail.key, tail.path) if isinstance(tail, Ref) else tail
            check_split(mach, s, sl, tail, "Entries::sort_by_key")
            run_closure(mach, s, cl_sort[0], cl, "sort")
            return [(s, Struct("()", []))]
        m = ctx.machine(hooks={r"slice::<impl \[(sorter::)?EntryBound\]>::iter$": slice_iter, r"as Iterator>::map::<": map_hook, r"^move _\d+$": fnptr})

        def inside(mach, s, sl, off, ln, what, where):
            mach.oblige(s, z3.And(z3.BoolVal(isinstance(sl, Slice) and sl.alloc == "A0"), sl.off == off, sl.len == ln), "read:%s-is-the-stored-range" % what, where)
            mach.oblige(s, z3.And(z3.UGE(sl.off, L - E), z3.ULE(sl.off, L), z3.ULE(sl.len, L - sl.off)), "read:%s-inside-byte-region" % what, where)

        def on_end(s, how):
            ph = s.ghost.get("phase")
            if how == "panic":
                ev = s.ghost["events"][-1]
                m.oblige(s, z3.BoolVal(False), "unexpected-panic:" + ev[2][:50], ev[1])
                return
            K, D = z3.ZeroExt(32, kl), z3.ZeroExt(32, dl)
            if ph == "iter":
                key, data = s.ghost["ret"].fields
                inside(m, s, key, L - ks, K, "key", "iter closure")
                inside(m, s, data, L - ks + K, D, "value", "iter closure")
                covers["iter-closure"] = True
                if m.feasible(s, kl == z3.BitVecVal(0, 32)):
                    covers["empty-key"] = True
            elif ph == "sort":
                inside(m, s, s.ghost["ret"], L - ks, K, "key", "sort closure")
                covers["sort-closure"] = True
            else:
                covers[s.ghost["top"]] = True
        m.on_end = on_end
        for top, fn, extra in (("iter", ctx.fn("Entries", "iter"), []), ("sort", ctx.fn("Entries", "sort_by_key"), None)):
            st = State()
            st.pc += ri(L, E, B, ctx.ES, lmax) + [z3.UGE(B, bv(1)), z3.ULE(z3.ZeroExt(32, kl) + z3.ZeroExt(32, dl), ks), z3.ULE(ks, E),
                                                z3.ULE(alg, bv(1))] + pins(ctx)
            key = entries_state(st, L, E, B, ctx)
            st.ghost["top"] = top
            args = [Ref(key, ())] + ([] if extra is not None else [Enum(alg, {})])
            m.run(st, fn, args)
        res["bounds"] = "L <= 2^%d; one arbitrary stored bound with klen + dlen <= key_start <= entries_len (PB); both sort algorithms" % (lmax.bit_length() - 1)
        finish(res, m, covers)
        return m
    return run_harness("entries_read_paths", body)


# ------------------------------------------------------------------------------------------------ C12 (sorter facet)
FALLIBLE_FNS = ("write_chunk", "merge_chunks", "insert", "write_into_stream_writer", "into_stream_merger_iter",
                "into_reader_cursors", "extract_reader_cursors_and_merger")


def h_sorter_faults(ctx):
    """failure propagation in the Sorter's own functions, in counter-abstraction mode: every call whose destination is a Result is a
    potential failure of a user component (creator, merge function, chunk storage, writer, reader).  On every path: such a Result is either
    examined by `?` (Try::branch; the Break arm returns Err by construction), or returned to the caller; it is never unwrapped and never
    dropped unexamined on a path that returns Ok; `convert_merge_error` (which panics on a merge error) is only applied to errors whose
    type cannot carry one."""
    def body(res):
        covers = {"ok-path": False, "err-path": False, "convert-site": False}
        tot = None
        targets = []
        for fname in FALLIBLE_FNS:
            try:
                targets.append(("Sorter::" + fname, ctx.fn("Sorter", fname)))
            except Unsupported:
                continue
        for f_ in ctx.fns:
            if f_.name.startswith("merger::") and "{closure" not in f_.name and f_.short in ("into_stream_merger_iter", "write_into_stream_writer", "next"):
                targets.append(("Merger::" + f_.short, f_))
        res["targets"] = [t_[0] for t_ in targets]
        for fname, fn in targets:
            if not fn.ret.startswith(("std::result::Result<", "Result<")):
                continue

            class Fal(Opaque):
                def __init__(self, fid, why):
                    Opaque.__init__(self, why)
                    self.fid = fid

            def any_call(mach, s, args, callee, fn=fn):
                fr = s.frames[-1]
                # destination type decides whether this call can fail
                term = fr.fn.blocks[fr.bb][1]
                dm = re.match(r"^_(\d+) = ", term)
                dty = fr.fn.types.get(int(dm.group(1)), "") if dm else ""
                tagged = [a for a in args if isinstance(a, Fal)]
                short = re.sub(r"[^\w:]+", " ", callee).strip()[-48:]
                if re.match(r"^Entries::", callee):
                    return [(s, Opaque("buffer operation (infallible; subject of C17)"))]
                if re.search(r"Result::<.*>::(unwrap|expect|unwrap_unchecked)$", callee) and tagged:
                    mach.oblige(s, z3.BoolVal(False), "C12:failure-of-a-user-component-would-panic(unwrap)", "%s bb%d" % (fr.fn.short, fr.bb))
                if re.search(r"Result::<.*>::map_err::<", callee) and "convert_merge_error" in callee:
                    covers["convert-site"] = True
                    inner = callee[callee.index("Result::<") + 9:callee.index(">::map_err::<")]
                    ety = harness_split(inner)[-1].strip()
                    mach.oblige(s, z3.BoolVal(ety in ("error::Error", "Error", "std::io::Error", "io::Error")),
                                "C12:convert_merge_error-applied-to-an-error-that-can-be-a-merge-error(%s)" % ety[:50], "%s bb%d" % (fr.fn.short, fr.bb))
                if re.search(r"Result::<.*>::(map_err|map|and_then|or_else)::<", callee) and tagged:
                    return [(s, tagged[0])]
                if re.search(r"as Try>::branch$", callee) and tagged:
                    s.ghost["examined"] = s.ghost.get("examined", ()) + (tagged[0].fid,)
                    return NotImplemented
                if re.search(r"(Result|Option)::<.*>::(ok|err|unwrap_or|unwrap_or_default|unwrap_or_else|is_ok|is_err)$", callee) and tagged:
                    return [(s, Opaque("failure discarded by " + short))]
                if dty.startswith(("std::result::Result<", "Result<")) and not re.search(r"as (Try|FromResidual)", callee) \
                        and not re.search(r"Result::<.*>::\w+", callee):
                    n = len(s.ghost.setdefault("fallible", ())) + 1
                    s.ghost["fallible"] = s.ghost["fallible"] + ((n, short, "%s bb%d" % (fr.fn.short, fr.bb)),)
                    return [(s, Fal(n, "Result of " + short))]
                return NotImplemented
            m = ctx.machine(hooks={r".": any_call})
            m.abstract = True
            st0 = State()
            so = build_sorter(ctx, ctx.machine(), st0, bv(0), False, True, False, bv(0), False)[0].ghost["ret"]
            st = State()
            vals = [Opaque(nm) for nm in so.names]
            st.heap[("O", "sorter")] = Struct("Sorter", vals, so.names) if fname.startswith("Sorter::") else Opaque("self")

            def on_end(s, how, fname=fname):
                where = "end of " + fname
                if how == "panic":
                    ev = s.ghost["events"][-1]
                    m.oblige(s, z3.BoolVal(False), "C12:panic-reachable:" + ev[2][:50], ev[1])
                    return
                ret = s.ghost.get("ret")
                if isinstance(ret, Fal):
                    covers["ok-path"] = True      # the fallible result itself is handed to the caller
                    return
                if not isinstance(ret, Enum):
                    raise Unsupported("return value of %s is neither a definite Result nor a forwarded one" % fname)
                d = z3.simplify(ret.discr)
                if z3.is_bv_value(d) and d.as_long() == 1:
                    covers["err-path"] = True
                    return
                examined = set(s.ghost.get("examined", ()))
                names_ = {n: (short, w) for n, short, w in s.ghost.get("fallible", ())}
                for n in s.ghost.get("took_err", ()):
                    m.oblige(s, z3.BoolVal(False), "C12:Err-arm-of-%s-leads-to-an-Ok-return" % names_.get(n, ("?", ""))[0], names_.get(n, ("", where))[1])
                for n, short, w in s.ghost.get("fallible", ()):
                    m.oblige(s, z3.BoolVal(n in examined), "C12:failure-of-%s-can-be-reported-as-success" % short, w)
                covers["ok-path"] = True
            m.on_end = on_end

            def on_close(s):
                # end of a loop iteration: a fallible result produced so far and not yet looked at would be lost here
                examined = set(s.ghost.get("examined", ()))
                for n, short, w in s.ghost.get("fallible", ()):
                    m.oblige(s, z3.BoolVal(n in examined), "C12:failure-of-%s-dropped-inside-a-loop" % short, w)
            m.on_close = on_close
            self_is_ref = fn.args[0][1].startswith("&")
            args = [Ref(("O", "sorter"), ()) if self_is_ref else st.heap[("O", "sorter")]] + [Opaque("arg") for _ in fn.args[1:]]
            m.run(st, fn, args)
            if tot is None:
                tot = m
            else:
                for k_ in ("queries", "obligations", "solver_s", "paths", "pruned"):
                    tot.stats[k_] += m.stats[k_]
                tot.stats["functions"] |= m.stats["functions"]
                tot.stats["unmodelled"] |= m.stats["unmodelled"]
                for k_, v_ in m.stats["ob_kinds"].items():
                    tot.stats["ob_kinds"][k_] = tot.stats["ob_kinds"].get(k_, 0) + v_
        res["bounds"] = ("Sorter::{%s} and Merger::into_stream_merger_iter / write_into_stream_writer / MergerIter::next: all paths, every non-tracked value nondeterministic, loops closed by abstract-state fixpoint; closures passed to iterator adaptors "
                         "(the per-chunk seek / Reader::new in merge_chunks and extract_reader_cursors_and_merger) are NOT entered" % ", ".join(FALLIBLE_FNS))
        finish(res, tot, covers)
        return tot
    return run_harness("sorter_fault_propagation", body)


def harness_split(s):
    from mir import split_top
    return split_top(s)
