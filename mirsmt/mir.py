"""Parser for rustc's `-Zunpretty=mir` text, restricted to what grenad's `sorter` module uses.

Produces, per function: name, argument list (local, type), return type, local types and basic blocks
(list of statement strings + one terminator string).  Nothing here interprets anything.
"""
import re

FN_RE = re.compile(r"^fn (.+?)\((.*)\) -> (.+) \{$")
BB_RE = re.compile(r"^    bb(\d+)( \(cleanup\))?: \{$")
LET_RE = re.compile(r"^\s+let (?:mut )?_(\d+): (.+);$")


class Fn:
    def __init__(self, name, args, ret):
        self.name = name
        self.args = args          # [(n, type)]
        self.ret = ret
        self.types = {0: ret}
        for n, t in args:
            self.types[n] = t
        self.blocks = {}          # n -> (stmts, term, cleanup)

    def __deepcopy__(self, memo):
        return self

    @property
    def short(self):
        return self.name.rsplit("::", 1)[-1]


def split_top(s, sep=","):
    """split at top-level separators (outside () [] <> {} and string literals)"""
    out, depth, cur, i, instr = [], 0, "", 0, False
    while i < len(s):
        c = s[i]
        if instr:
            cur += c
            if c == "\\":
                cur += s[i + 1]
                i += 1
            elif c == '"':
                instr = False
        elif c == '"':
            instr = True
            cur += c
        elif c in "([{<":
            depth += 1
            cur += c
        elif c in ")]}":
            depth -= 1
            cur += c
        elif c == ">" and not cur.endswith("-") and not cur.endswith("="):
            depth -= 1
            cur += c
        elif c == sep and depth == 0:
            out.append(cur.strip())
            cur = ""
        else:
            cur += c
        i += 1
    if cur.strip():
        out.append(cur.strip())
    return out


def parse(text):
    fns = []
    cur = None
    bb = None
    for line in text.splitlines():
        if cur is None:
            m = FN_RE.match(line)
            if m:
                args = []
                for a in split_top(m.group(2)):
                    am = re.match(r"^_(\d+): (.+)$", a)
                    if am:
                        args.append((int(am.group(1)), am.group(2)))
                cur = Fn(m.group(1), args, m.group(3))
            continue
        if line == "}":
            fns.append(cur)
            cur = None
            bb = None
            continue
        m = BB_RE.match(line)
        if m:
            bb = int(m.group(1))
            cur.blocks[bb] = ([], None, bool(m.group(2)))
            continue
        if bb is not None:
            if line == "    }":
                bb = None
                continue
            s = line.strip()
            if not s:
                continue
            stmts, term, cl = cur.blocks[bb]
            stmts.append(s)
            continue
        m = LET_RE.match(line)
        if m:
            cur.types[int(m.group(1))] = m.group(2)
    # last statement of each block is its terminator
    for f in fns:
        for n, (stmts, _t, cl) in list(f.blocks.items()):
            f.blocks[n] = (stmts[:-1], stmts[-1], cl)
    return fns
