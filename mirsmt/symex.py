"""Symbolic executor for the MIR of grenad's sorter module -> z3 queries.

Machine integers are bit-vectors of their Rust width (usize = 64).  Every MIR `assert` (overflow, bounds),
every modelled std contract (slice indexing, copy_from_slice, from_raw_parts, alloc/dealloc, bytemuck casts,
Layout validity) becomes a proof obligation that is discharged by the solver under the path condition the
moment it is met, and assumed afterwards (as CBMC does).  Branches are explored depth-first, infeasible ones
are pruned by the solver; recursion is bounded with an unwinding obligation (exceeding it is `Bound`, never a
pass).
"""
import copy
import re
import time

import z3

from mir import split_top

W = {"usize": 64, "u64": 64, "isize": 64, "i64": 64, "u32": 32, "i32": 32, "u16": 16, "u8": 8, "i8": 8,
     "u128": 128}


class Opaque:
    def __init__(self, why=""):
        self.why = why

    def __repr__(self):
        return "Opaque(%s)" % self.why


class Struct:
    def __init__(self, name, fields, names=None):
        self.name, self.fields, self.names = name, fields, names

    def __repr__(self):
        return "%s%r" % (self.name, self.fields)


class Enum:
    """discr: z3 BV64; variants: name -> (index, [fields])"""
    def __init__(self, discr, variants):
        self.discr, self.variants = discr, variants


class Ref:
    def __init__(self, key, path):
        self.key, self.path = key, tuple(path)


class Slice:
    def __init__(self, alloc, off, ln, esz=1):
        self.alloc, self.off, self.len, self.esz = alloc, off, ln, esz


class Ptr:
    def __init__(self, alloc, null=None):
        self.alloc, self.null = alloc, null


class Layout:
    def __init__(self, size, align):
        self.size, self.align = size, align


class LayoutRes:
    def __init__(self, ok, layout):
        self.ok, self.layout = ok, layout


class VecM:
    def __init__(self, ln):
        self.len = ln


class Frame:
    def __init__(self, fn, fid, dest, ret_bb):
        self.fn, self.fid, self.bb = fn, fid, 0
        self.dest, self.ret_bb = dest, ret_bb   # dest: location in caller (key, path)


class Violation(Exception):
    def __init__(self, ob):
        self.ob = ob


class Bound(Exception):
    pass


class Unsupported(Exception):
    pass


def bv(v, w=64):
    return z3.BitVecVal(v, w)


class State:
    def __init__(self):
        self.heap = {}
        self.allocs = {}      # id -> dict(size, align, live(bool python), origin)
        self.pc = []          # path condition
        self.frames = []
        self.ghost = {"writes": [], "stores": [], "created": 0, "events": [], "trace": []}
        self.nfid = 0

    def fork(self):
        return copy.deepcopy(self)


class Machine:
    def __init__(self, fns, consts, layout, hooks=None, max_depth=40, log=None):
        self.fns = fns
        self.consts = consts
        self.layout = layout            # {'EntryBound': (size, align)}
        self.hooks = hooks or {}        # callee regex -> handler(machine, st, args, callee)
        self.z3_ms = 300
        self.local_types = None
        self.cache = {}
        self.varmemo = {}
        self.abstract = False       # counter-abstraction mode: unknown values are nondeterministic, loops closed by fixpoint
        self.tracked = []           # [(heap key, path prefix)] state that unknown callees must not receive mutably
        self.cvc5_ms = 60000
        self.max_depth = max_depth
        self.stats = {"queries": 0, "obligations": 0, "solver_s": 0.0, "paths": 0, "pruned": 0,
                      "functions": set(), "unmodelled": set(), "ob_kinds": {}}
        self.fresh_n = 0
        self.log = log
        self.smt_dump = None            # list to collect smt2 texts of obligation queries

    # ------------------------------------------------------------------ solver
    def check(self, exprs):
        """one query.  z3 (bit-blasting) gets a short budget; what it cannot decide goes to cvc5 with the
        integer encoding of bit-vectors (--solve-bv-as-int=sum keeps the mod-2^64 semantics), which decides the
        linear size arithmetic of this module in milliseconds where bit-blasting needs minutes.  Anything still
        undecided is `Unsupported` (inconclusive), never a pass."""
        t = time.time()
        # cone of influence: conjuncts of the path condition that share no variable (transitively) with the goal cannot
        # change the verdict (each was satisfiable when it was added); dropping them makes queries small and cacheable
        exprs = self.slice(exprs)
        key = (frozenset(str(e) for e in exprs[:-1]), str(exprs[-1])) if len(exprs) < 60 else None
        if key is not None and key in self.cache:
            self.stats["cache_hits"] = self.stats.get("cache_hits", 0) + 1
            return self.cache[key]
        res = self.check_uncached(exprs)
        if key is not None:
            self.cache[key] = res
        self.stats["solver_s"] += time.time() - t
        return res

    def vars_of(self, e):
        k = e.get_id()
        if k in self.varmemo:
            return self.varmemo[k][1]
        out, stack, seen = set(), [e], set()
        while stack:
            x = stack.pop()
            i = x.get_id()
            if i in seen:
                continue
            seen.add(i)
            if z3.is_const(x) and x.decl().kind() == z3.Z3_OP_UNINTERPRETED:
                out.add(str(x))
            else:
                stack.extend(x.children())
        self.varmemo[k] = (e, out)     # keeping e alive keeps its id from being reused
        return out

    def slice(self, exprs):
        goal = exprs[-1]
        need = set(self.vars_of(goal))
        rest = [(e, self.vars_of(e)) for e in exprs[:-1] if not z3.is_true(e)]
        keep, changed = [], True
        while changed:
            changed = False
            nxt = []
            for e, vs in rest:
                if vs & need or not vs:
                    keep.append(e)
                    if not vs <= need:
                        need |= vs
                        changed = True
                else:
                    nxt.append((e, vs))
            rest = nxt
        return keep + [goal]

    def check_uncached(self, exprs):
        t = time.time()
        s = z3.Solver()
        s.set("timeout", self.z3_ms)
        for e in exprs:
            s.add(e)
        r = s.check()
        self.stats["queries"] += 1
        model = None
        if r == z3.sat:
            mm = s.model()
            model = {str(d): (mm[d].as_long() if z3.is_bv_value(mm[d]) else str(mm[d])) for d in mm.decls()}
            self.stats["by_z3"] = self.stats.get("by_z3", 0) + 1
        elif r == z3.unsat:
            self.stats["by_z3"] = self.stats.get("by_z3", 0) + 1
        else:
            r, model = self.cvc5(s)
            self.stats["by_cvc5_int"] = self.stats.get("by_cvc5_int", 0) + 1
        if self.smt_dump is not None:
            self.smt_dump.append((s.to_smt2(), "sat" if r == z3.sat else "unsat"))
        return r == z3.sat, model

    def cvc5(self, s):
        import subprocess
        txt = "(set-logic QF_BV)\n(set-option :produce-models true)\n" + s.to_smt2() + "(get-model)\n"
        for extra in (["--solve-bv-as-int=sum"], []):
            try:
                out = subprocess.run(["cvc5", "--lang", "smt2", "--tlimit=%d" % self.cvc5_ms] + extra, input=txt,
                                     capture_output=True, text=True, timeout=self.cvc5_ms / 1000 + 5).stdout
            except subprocess.TimeoutExpired:
                continue
            first = out.strip().split("\n", 1)[0].strip() if out.strip() else ""
            if first == "unsat":
                return z3.unsat, None
            if first == "sat":
                model = {}
                for m in re.finditer(r"\(define-fun (\S+) \(\) \(_ BitVec \d+\) #b([01]+)\)", out):
                    model[m.group(1).strip("|")] = int(m.group(2), 2)
                for m in re.finditer(r"\(define-fun (\S+) \(\) Bool (true|false)\)", out):
                    model[m.group(1).strip("|")] = m.group(2)
                return z3.sat, model
        raise Unsupported("solver: query undecided by z3 (%d ms) and cvc5 (%d ms)" % (self.z3_ms, self.cvc5_ms))

    def feasible(self, st, cond):
        sat, _ = self.check(st.pc + [cond])
        return sat

    def oblige(self, st, cond, kind, where):
        """prove cond under the path condition; raise Violation with a model otherwise; then assume it"""
        self.stats["obligations"] += 1
        self.stats["ob_kinds"][kind] = self.stats["ob_kinds"].get(kind, 0) + 1
        cond = z3.simplify(cond) if not isinstance(cond, bool) else z3.BoolVal(cond)
        if z3.is_true(cond):
            return
        sat, m = self.check(st.pc + [z3.Not(cond)])
        if sat:
            raise Violation({"kind": kind, "where": where, "model": m, "state": st, "cond": str(cond)})
        st.pc.append(cond)

    def fresh(self, name, w=64):
        self.fresh_n += 1
        return z3.BitVec("%s!%d" % (name, self.fresh_n), w)

    def fresh_bool(self, name):
        self.fresh_n += 1
        return z3.Bool("%s!%d" % (name, self.fresh_n))

    # ------------------------------------------------------------------ function lookup
    def resolve(self, callee):
        """callee text from a MIR call -> Fn of the sorter module or None"""
        base = re.sub(r"::<[^()]*?>(?=::|$)", "", callee)
        m = re.match(r"^<(.+?) as (.+?)>::(\w+)$", base)
        if m:
            ty, meth = m.group(1), m.group(3)
        else:
            parts = base.rsplit("::", 1)
            if len(parts) != 2:
                return None
            ty, meth = parts
            ty = re.sub(r"<.*$", "", ty).rsplit("::", 1)[-1]
        ty = re.sub(r"<.*$", "", ty)
        if not re.fullmatch(r"\w+", ty):
            return None
        if self.local_types is not None and ty not in self.local_types:
            return None         # not a type of the module under analysis (std / other modules are contracts or nondeterministic)
        cands = [f for f in self.fns if f.name.startswith("sorter::") and f.short == meth and "{closure" not in f.name]
        pat = re.compile(r"(?<![\w])%s(?![\w])" % re.escape(ty))
        recv = [f for f in cands if f.args and pat.search(f.args[0][1])]
        if len(recv) == 1:
            return recv[0]
        if not recv:
            byret = [f for f in cands if pat.search(f.ret)]
            if len(byret) == 1:
                return byret[0]
            if len(cands) == 1 and ty in ("Entries", "Sorter", "SorterBuilder", "EntryBoundAlignedBuffer", "EntryBound", "sorter"):
                return cands[0]
        if len(recv) > 1:
            raise Unsupported("ambiguous callee %s: %s" % (callee, [f.name for f in recv]))
        return None

    # ------------------------------------------------------------------ places
    def parse_place(self, s):
        s = s.strip()
        if re.fullmatch(r"_\d+", s):
            return int(s[1:]), []
        if s.endswith("]") and not s.endswith(")]"):
            i = s.rindex("[")
            n, pr = self.parse_place(s[:i])
            return n, pr + [("index", s[i + 1:-1])]
        if s.startswith("(*") and s.endswith(")"):
            n, pr = self.parse_place(s[2:-1])
            return n, pr + [("deref",)]
        if s.startswith("(") and s.endswith(")"):
            inner = s[1:-1]
            if inner[0] == "(":
                d = 0
                for j, c in enumerate(inner):
                    if c == "(":
                        d += 1
                    elif c == ")":
                        d -= 1
                        if d == 0:
                            break
                P, rest = inner[:j + 1], inner[j + 1:]
            else:
                m = re.match(r"_\d+", inner)
                P, rest = m.group(), inner[m.end():]
            n, pr = self.parse_place(P)
            if rest.startswith(" as "):
                return n, pr + [("variant", rest[4:].strip())]
            m = re.match(r"\.(\d+): ", rest)
            if m:
                return n, pr + [("field", int(m.group(1)))]
        raise Unsupported("place: " + s)

    def locate(self, st, s):
        """-> ('loc', key, path) or ('slice', Slice) or ('sidx', Slice, idxval)"""
        n, pr = self.parse_place(s)
        fr = st.frames[-1]
        key, path = ("L", fr.fid, n), ()
        for p in pr:
            if p[0] == "deref":
                v = self.read_loc(st, key, path)
                if isinstance(v, Ref):
                    key, path = v.key, v.path
                elif isinstance(v, Slice):
                    return ("slice", v)
                elif self.abstract and isinstance(v, Opaque):
                    return ("opaque",)
                else:
                    raise Unsupported("deref of %r in %s" % (v, s))
            elif p[0] == "field":
                path = path + (("f", p[1]),)
            elif p[0] == "variant":
                path = path + (("v", p[1]),)
            elif p[0] == "index":
                raise Unsupported("index projection on non-slice: " + s)
        return ("loc", key, path)

    def read_loc(self, st, key, path):
        if key not in st.heap:
            if self.abstract:
                return Opaque("uninitialised")
            raise Unsupported("read of uninitialised %r" % (key,))
        v = st.heap[key]
        for p in path:
            if isinstance(v, Opaque):
                return Opaque("field of opaque")
            if p[0] == "f":
                if isinstance(v, Struct):
                    v = v.fields[p[1]]
                elif isinstance(v, tuple) and v and v[0] == "variant":
                    v = v[1][p[1]]
                elif isinstance(v, list):
                    v = v[p[1]]
                else:
                    raise Unsupported("field %d of %r" % (p[1], v))
            elif p[0] == "v":
                if isinstance(v, Enum):
                    if p[1] not in v.variants:
                        raise Unsupported("variant %s" % p[1])
                    v = ("variant", v.variants[p[1]][1])
                else:
                    raise Unsupported("downcast of %r" % (v,))
        return v

    def write_loc(self, st, key, path, val):
        if not path:
            st.heap[key] = val
            return
        v = st.heap[key]
        for p in path[:-1]:
            if isinstance(v, Opaque) and self.abstract:
                return
            if p[0] == "f":
                v = v.fields[p[1]] if isinstance(v, Struct) else v[p[1]]
            else:
                raise Unsupported("write through variant")
        p = path[-1]
        if isinstance(v, Opaque) and self.abstract:
            return          # a field of an untracked object
        if isinstance(v, Struct):
            v.fields[p[1]] = val
        elif isinstance(v, list):
            v[p[1]] = val
        else:
            raise Unsupported("write field of %r" % (v,))

    def read_place(self, st, s):
        # slice element store/load
        s = s.strip()
        if s.endswith("]") and not s.endswith(")]"):
            raise Unsupported("slice element read: " + s)
        loc = self.locate(st, s)
        if loc[0] == "slice":
            return loc[1]
        if loc[0] == "opaque":
            return Opaque("through opaque pointer")
        return self.read_loc(st, loc[1], loc[2])

    # ------------------------------------------------------------------ operands / rvalues
    def type_width(self, t):
        t = t.strip()
        return W.get(t)

    def const(self, c):
        c = c.strip()
        if c in ("true", "false"):
            return z3.BoolVal(c == "true")
        if c == "()":
            return Struct("()", [])
        m = re.fullmatch(r"(-?\d+)_(\w+)", c)
        if m and m.group(2) in W:
            return bv(int(m.group(1)), W[m.group(2)])
        m = re.fullmatch(r"core::num::<impl (\w+)>::MAX", c)
        if m and m.group(1) in W and m.group(1)[0] == "u":
            return bv(2 ** W[m.group(1)] - 1, W[m.group(1)])
        m = re.fullmatch(r"sorter::(\w+)", c)
        if m and m.group(1) in self.consts:
            return bv(self.consts[m.group(1)], 64)
        return Opaque("const " + c[:40])

    def operand(self, st, o):
        o = o.strip()
        if o.startswith("no_retag "):
            o = o[9:]
        if o.startswith("copy ") or o.startswith("move "):
            return self.read_place(st, o[5:])
        if o.startswith("const "):
            return self.const(o[6:])
        if self.abstract or "::" in o:
            return Opaque("fn item " + o[:40])
        raise Unsupported("operand: " + o)

    def cast(self, v, ty, kind):
        if isinstance(v, Opaque):
            return v
        if kind == "IntToInt":
            w = self.type_width(ty)
            if w is None or not z3.is_bv(v):
                if z3.is_bool(v) and w:
                    return z3.If(v, bv(1, w), bv(0, w))
                raise Unsupported("cast to " + ty)
            if v.size() == w:
                return v
            if v.size() > w:
                return z3.Extract(w - 1, 0, v)
            return z3.ZeroExt(w - v.size(), v)   # only unsigned sources occur
        if kind in ("PtrToPtr", "Transmute") or kind.startswith("PointerCoercion"):
            return v
        raise Unsupported("cast kind " + kind)

    BIN = {"Add", "Sub", "Mul", "Div", "Rem", "Lt", "Le", "Gt", "Ge", "Eq", "Ne", "BitAnd", "BitOr", "BitXor",
           "Shl", "Shr", "AddWithOverflow", "SubWithOverflow", "MulWithOverflow", "AddUnchecked", "SubUnchecked",
           "MulUnchecked"}

    def binop(self, op, a, b):
        if isinstance(a, Opaque) or isinstance(b, Opaque):
            return Opaque("binop on opaque")
        if z3.is_bool(a) and z3.is_bool(b):
            if op == "Eq":
                return a == b
            if op == "Ne":
                return a != b
            if op == "BitAnd":
                return z3.And(a, b)
            if op == "BitOr":
                return z3.Or(a, b)
            raise Unsupported("bool op " + op)
        w = a.size()
        if op in ("Add", "AddUnchecked"):
            return a + b
        if op in ("Sub", "SubUnchecked"):
            return a - b
        if op in ("Mul", "MulUnchecked"):
            return a * b
        if op == "Div":
            return z3.UDiv(a, b)
        if op == "Rem":
            return z3.URem(a, b)
        if op == "Lt":
            return z3.ULT(a, b)
        if op == "Le":
            return z3.ULE(a, b)
        if op == "Gt":
            return z3.UGT(a, b)
        if op == "Ge":
            return z3.UGE(a, b)
        if op == "Eq":
            return a == b
        if op == "Ne":
            return a != b
        if op == "BitAnd":
            return a & b
        if op == "BitOr":
            return a | b
        if op == "BitXor":
            return a ^ b
        if op == "Shl":
            return a << b
        if op == "Shr":
            return z3.LShR(a, b)
        if op == "AddWithOverflow":
            return Struct("(T,bool)", [a + b, z3.ULT(a + b, a)])
        if op == "SubWithOverflow":
            return Struct("(T,bool)", [a - b, z3.ULT(a, b)])
        if op == "MulWithOverflow":
            for x, c in ((a, b), (b, a)):
                c = z3.simplify(c)
                if z3.is_bv_value(c):
                    cv = c.as_long()
                    if cv == 0:
                        return Struct("(T,bool)", [bv(0, w), z3.BoolVal(False)])
                    return Struct("(T,bool)", [a * b, z3.UGT(x, bv((2 ** w - 1) // cv, w))])
            return Struct("(T,bool)", [a * b, z3.Not(z3.BVMulNoOverflow(a, b, False))])
        raise Unsupported("binop " + op)

    def rvalue(self, st, r):
        r = r.strip()
        m = re.match(r"^(.*) as (.+?) \((\w+(?:\([^)]*\))?(?:, \w+)?)\)$", r)
        if m and (m.group(1).startswith(("copy ", "move ", "const "))):
            return self.cast(self.operand(st, m.group(1)), m.group(2), m.group(3))
        if r.startswith(("copy ", "move ", "const ", "no_retag ")):
            return self.operand(st, r)
        m = re.match(r"^&(?:raw (?:const|mut) (?:\(fake\) )?|mut |\(fake\) )?(.+)$", r)
        if m and r.startswith("&"):
            loc = self.locate(st, m.group(1))
            if loc[0] == "slice":
                return loc[1]
            if loc[0] == "opaque":
                return Opaque("reborrow of opaque pointer")
            return Ref(loc[1], loc[2])
        m = re.match(r"^(\w+)\((.*)\)$", r)
        if m and m.group(1) in self.BIN:
            a, b = split_top(m.group(2))
            return self.binop(m.group(1), self.operand(st, a), self.operand(st, b))
        if m and m.group(1) == "PtrMetadata":
            v = self.operand(st, m.group(2))
            if isinstance(v, Slice):
                return v.len
            raise Unsupported("PtrMetadata of %r" % (v,))
        if m and m.group(1) == "Not":
            v = self.operand(st, m.group(2))
            return z3.Not(v) if z3.is_bool(v) else ~v
        if m and m.group(1) == "discriminant":
            v = self.read_place(st, m.group(2))
            if isinstance(v, Enum):
                return v.discr
            if self.abstract and isinstance(v, Opaque):
                if hasattr(v, "fid"):       # a fallible result inspected by `match` counts as examined (fault-propagation harness)
                    st.ghost["examined"] = st.ghost.get("examined", ()) + (v.fid,)
                    dv = self.fresh("discr")
                    st.ghost["discr_of"] = st.ghost.get("discr_of", ()) + ((str(dv), v.fid),)
                    return dv
                return self.fresh("discr")
            raise Unsupported("discriminant of %r" % (v,))
        # aggregates
        m = re.match(r"^([\w:<>, \[\]&']+?) \{ (.*) \}$", r)
        if m:
            names, vals = [], []
            for f in split_top(m.group(2)):
                n, o = f.split(": ", 1)
                names.append(n)
                vals.append(self.operand(st, o))
            name = re.sub(r"::<.*$", "", m.group(1)).rsplit("::", 1)[-1]
            return Struct(name, vals, names)
        m = re.match(r"^\{closure@[^}]*\} \{ (.*) \}$", r)
        if m:
            names, vals = [], []
            for f in split_top(m.group(1)):
                n, o = f.split(": ", 1)
                names.append(n)
                vals.append(self.operand(st, o))
            return Struct("closure", vals, names)
        if r.startswith("(") and r.endswith(")"):
            return Struct("tuple", [self.operand(st, o) for o in split_top(r[1:-1])])
        m = re.match(r"^(?:std::|core::)?(?:result::|option::)?(Result|Option)::<.*>::(Ok|Err|Some|None)(?:\((.*)\))?$", r)
        if m:
            idx = {"Ok": 0, "Err": 1, "None": 0, "Some": 1}[m.group(2)]
            vals = [self.operand(st, o) for o in split_top(m.group(3))] if m.group(3) else []
            return Enum(bv(idx), {m.group(2): (idx, vals)})
        return Opaque("rvalue " + r[:60])

    # ------------------------------------------------------------------ statements
    def assign(self, st, dest, val):
        dest = dest.strip()
        if dest.endswith("]") and not dest.endswith(")]"):
            i = dest.rindex("[")
            base = self.locate(st, dest[:i])
            if base[0] != "slice":
                raise Unsupported("indexed store: " + dest)
            idx = self.read_place(st, dest[i + 1:-1])
            st.ghost["stores"].append((base[1], idx, val))
            return
        loc = self.locate(st, dest)
        if loc[0] == "opaque":
            raise Unsupported("store through opaque pointer")
        if loc[0] != "loc":
            raise Unsupported("assign to slice place")
        self.write_loc(st, loc[1], loc[2], val)

    def stmt(self, st, s):
        if s.startswith(("StorageLive", "StorageDead", "FakeRead", "nop", "PlaceMention", "Retag", "AscribeUserType",
                         "Coverage", "ConstEvalCounter")):
            return
        m = re.match(r"^(.+?) = (.+);$", s)
        if not m:
            if self.abstract and s.startswith(("Deinit", "SetDiscriminant", "Assume", "Intrinsic")):
                return
            raise Unsupported("statement: " + s)
        if not self.abstract:
            self.assign(st, m.group(1), self.rvalue(st, m.group(2)))
            return
        try:
            val = self.rvalue(st, m.group(2))
        except Unsupported as u:
            val = Opaque("unencoded rvalue: " + str(u)[:40])
        try:
            self.assign(st, m.group(1), val)
        except Unsupported as u:
            if "opaque" in str(u).lower():
                return          # store through a pointer the abstraction does not track (cannot alias tracked state)
            raise

    # ------------------------------------------------------------------ terminators
    def step(self, st):
        """execute the current block of the top frame; returns list of successor states ([] = path ended)"""
        fr = st.frames[-1]
        stmts, term, cleanup = fr.fn.blocks[fr.bb]
        where = "%s bb%d" % (fr.fn.short, fr.bb)
        if self.abstract:
            sig = [st.ghost.get("created", 0), len([e_ for e_ in st.ghost["events"] if e_[0] not in ("unmodelled",)])]
            for k_, v_ in st.heap.items():
                if k_[0] == "L" and k_[1] == fr.fid and z3.is_expr(v_) and (z3.is_true(v_) or z3.is_false(v_) or z3.is_bv_value(v_)):
                    sig.append((k_[2], str(v_)))
            sig = (fr.fid, fr.bb, tuple(sorted(map(str, sig[2:]))), sig[0], sig[1], self.sig_extra(st), bool(st.ghost.get("took_err")))
            seen = st.ghost.setdefault("seen", {})
            cnt = seen.setdefault((fr.fid, fr.bb), [])
            if sig in cnt:
                self.stats["loops_closed"] = self.stats.get("loops_closed", 0) + 1
                self.on_close(st)
                return []           # same abstract state as an earlier visit of this block: already explored from there
            cnt.append(sig)
            if len(cnt) > 48:
                import os
                if os.environ.get("MS_DEBUG"):
                    for x in cnt[-3:]:
                        print("SIG", x)
                raise Bound("abstract state at %s does not stabilise" % where)
        for s in stmts:
            self.stmt(st, s)
        t = term
        if t == "return;":
            return self.do_return(st)
        if t in ("unreachable;", "resume;"):
            raise Unsupported("reached `%s` at %s" % (t, where))
        m = re.match(r"^goto -> bb(\d+);$", t)
        if m:
            fr.bb = int(m.group(1))
            return [st]
        m = re.match(r"^switchInt\((.+)\) -> \[(.*)\];$", t)
        if m:
            v = self.operand(st, m.group(1))
            if isinstance(v, Opaque) and self.abstract:
                v = self.fresh("nondet")
            if isinstance(v, Opaque):
                raise Unsupported("branch on opaque value at %s (%s)" % (where, v.why))
            out, taken = [], []
            for arm in split_top(m.group(2)):
                k, tgt = arm.split(": ")
                tgt = int(tgt[2:])
                if k == "otherwise":
                    cond = z3.And([z3.Not(c) for c in taken]) if taken else z3.BoolVal(True)
                else:
                    kv = int(k)
                    cond = (v == z3.BoolVal(bool(kv))) if z3.is_bool(v) else (v == bv(kv, v.size()))
                    taken.append(cond)
                tb = fr.fn.blocks[tgt]
                if not tb[0] and tb[1] == "unreachable;":
                    continue        # rustc: this arm cannot be taken (exhaustive match)
                nd = z3.is_const(v) and v.decl().kind() == z3.Z3_OP_UNINTERPRETED and str(v).split("!")[0] in ("discr", "nondet") \
                    and not any(str(v) in str(c_) for c_ in st.pc[-6:])
                if nd or self.feasible(st, cond):
                    s2 = st.fork()
                    if k != "0" and z3.is_const(v):
                        for dn_, fid_ in st.ghost.get("discr_of", ()):
                            if dn_ == str(v):       # the Err arm of a `match` on a fallible result
                                s2.ghost["took_err"] = s2.ghost.get("took_err", ()) + (fid_,)
                    s2.pc.append(cond)
                    s2.frames[-1].bb = tgt
                    out.append(s2)
                else:
                    self.stats["pruned"] += 1
            return out
        m = re.match(r"^assert\((!?)(.+?), \"(.*?)\".*\) -> \[success: bb(\d+), unwind.*\];$", t)
        if m:
            v = self.operand(st, m.group(2))
            if isinstance(v, Opaque) and self.abstract:
                # arithmetic over untracked values: decided by the harnesses that track them (C08 step), assumed to pass here
                self.stats["asserts_assumed"] = self.stats.get("asserts_assumed", 0) + 1
                fr.bb = int(m.group(4))
                return [st]
            if isinstance(v, Opaque):
                raise Unsupported("assert on opaque at " + where)
            cond = z3.Not(v) if m.group(1) else v
            kind = "overflow" if "overflow" in m.group(3) else ("index" if "index out of bounds" in m.group(3) else "assert")
            self.oblige(st, cond, kind, "%s: %s" % (where, m.group(3)[:50]))
            fr.bb = int(m.group(4))
            return [st]
        m = re.match(r"^drop\((.+?)\) -> \[return: bb(\d+), unwind.*\];$", t)
        if m:
            fr.bb = int(m.group(2))
            try:
                loc = self.locate(st, m.group(1))
                v = self.read_loc(st, loc[1], loc[2]) if loc[0] == "loc" else None
            except Unsupported:
                v = None
            return self.do_drop(st, v, loc if v is not None else None)
        if re.search(r"\) -> unwind ", t) or t.startswith("_") and "panic" in t.split("(")[0]:
            st.ghost["events"].append(("panic", where, t[:80]))
            self.end_path(st, "panic")
            return []
        # call
        m = re.match(r"^(.+?) = (.+)\) -> \[return: bb(\d+), unwind.*\];$", t)
        if m:
            dest, rest, ret_bb = m.group(1), m.group(2), int(m.group(3))
            d, i = 0, len(rest)
            # find the '(' matching the final ')'
            depth = 1
            j = len(rest) - 1
            while j >= 0:
                c = rest[j]
                if c == ")":
                    depth += 1
                elif c == "(":
                    depth -= 1
                    if depth == 0:
                        break
                j -= 1
            callee, argtxt = rest[:j], rest[j + 1:]
            args = [self.operand(st, a) for a in split_top(argtxt)] if argtxt.strip() else []
            return self.call(st, dest, callee, args, ret_bb, where)
        raise Unsupported("terminator: " + t)

    def end_path(self, st, how):
        self.stats["paths"] += 1
        self.on_end(st, how)

    def on_end(self, st, how):  # overridden by harnesses
        pass

    def on_close(self, st):     # overridden by harnesses: obligations that must hold when a loop iteration ends
        pass

    def sig_extra(self, st):    # overridden by harnesses: tracked counters as a string
        return ""

    def do_return(self, st):
        fr = st.frames.pop()
        rv = st.heap.get(("L", fr.fid, 0), Struct("()", []))
        for k in [k for k in st.heap if k[0] == "L" and k[1] == fr.fid]:
            del st.heap[k]
        if not st.frames:
            st.ghost["ret"] = rv
            self.end_path(st, "return")
            return []
        caller = st.frames[-1]
        if fr.dest is not None:
            self.assign(st, fr.dest, rv)
        caller.bb = fr.ret_bb
        return [st]

    def push_frame(self, st, fn, args, dest, ret_bb):
        if len(st.frames) >= self.max_depth:
            raise Bound("call depth %d exceeded at %s" % (self.max_depth, fn.name))
        st.nfid += 1
        fr = Frame(fn, st.nfid, dest, ret_bb)
        if len(args) != len(fn.args):
            raise Unsupported("arity of " + fn.name)
        for (n, _t), v in zip(fn.args, args):
            st.heap[("L", fr.fid, n)] = v
        st.frames.append(fr)
        self.stats["functions"].add(fn.name)
        st.ghost["trace"].append(fn.short)
        return [st]

    def do_drop(self, st, v, loc):
        if isinstance(v, Struct) and v.name == "EntryBoundAlignedBuffer":
            fn = self.resolve("<EntryBoundAlignedBuffer as Drop>::drop")
            if fn is None:
                raise Unsupported("no Drop impl found for EntryBoundAlignedBuffer")
            ret_bb = st.frames[-1].bb
            return self.push_frame(st, fn, [Ref(loc[1], loc[2])], None, ret_bb)
        if isinstance(v, Struct) and v.name == "Entries":
            # drop glue: field 0 is the buffer
            return self.do_drop(st, v.fields[0], ("loc", loc[1], loc[2] + (("f", 0),)))
        return [st]

    # ------------------------------------------------------------------ calls
    def call(self, st, dest, callee, args, ret_bb, where):
        fr = st.frames[-1]
        for pat, h in self.hooks.items():
            if re.search(pat, callee):
                res = h(self, st, args, callee)
                if res is NotImplemented:
                    break
                out = []
                for s2, rv in res:
                    s2.frames[-1].bb = ret_bb
                    self.assign(s2, dest, rv)
                    out.append(s2)
                return out
        r = self.model_call(st, callee, args, where)
        if r is not NotImplemented:
            self.assign(st, dest, r)
            fr.bb = ret_bb
            return [st]
        fn = self.resolve(callee)
        if fn is not None:
            return self.push_frame(st, fn, args, dest, ret_bb)
        for a in args:
            if isinstance(a, Ref):
                for key, pre in self.tracked:
                    if a.key == key and (a.path[:len(pre)] == tuple(pre) or tuple(pre)[:len(a.path)] == a.path):
                        raise Unsupported("tracked state handed to an unmodelled callee: " + callee[:70])
        self.stats["unmodelled"].add(re.sub(r"<.*", "", callee)[:60] or callee[:60])
        st.ghost["events"].append(("unmodelled", where, callee[:80]))
        self.assign(st, dest, Opaque("result of " + callee[:50]))
        fr.bb = ret_bb
        return [st]

    def esz(self, ty):
        if ty in self.layout:
            return self.layout[ty]
        raise Unsupported("layout of " + ty)

    def model_call(self, st, callee, args, where):
        c = callee
        m = re.search(r"mem::(size_of|align_of)::<(\w+)>$", c)
        if m:
            s, a = self.esz(m.group(2))
            return bv(s if m.group(1) == "size_of" else a)
        if re.search(r"num::<impl usize>::div_ceil$", c):
            a, b = args
            self.oblige(st, b != bv(0), "div-by-zero", where)
            return z3.UDiv(a, b) + z3.If(z3.URem(a, b) != bv(0), bv(1), bv(0))
        if re.search(r"cmp::max::<usize>$", c):
            a, b = args
            return z3.If(z3.UGT(a, b), a, b)
        if re.search(r"cmp::min::<usize>$", c):
            a, b = args
            return z3.If(z3.ULT(b, a), b, a)
        if re.search(r"Layout::from_size_align$", c):
            size, align = args
            pow2 = z3.And(align != bv(0), (align & (align - bv(1))) == bv(0))
            ok = z3.And(pow2, z3.ULE(size, bv(2 ** 63) - align))
            return LayoutRes(ok, Layout(size, align))
        if re.search(r"Layout::from_size_align_unchecked$", c):
            size, align = args
            pow2 = z3.And(align != bv(0), (align & (align - bv(1))) == bv(0))
            self.oblige(st, z3.And(pow2, z3.ULE(size, bv(2 ** 63) - align)), "UB:layout-unchecked", where)
            return Layout(size, align)
        if re.search(r"Result::<Layout, LayoutError>::(unwrap|expect)$", c) or \
                re.search(r"Result::<std::alloc::Layout, .*>::(unwrap|expect)$", c):
            lr = args[0]
            self.oblige(st, lr.ok, "layout-invalid", where)
            return lr.layout
        if re.search(r"alloc::(alloc|alloc_zeroed)$", c):
            lay = args[0]
            self.oblige(st, lay.size != bv(0), "UB:zero-size-alloc", where)
            aid = "A%d" % (len(st.allocs))
            null = self.fresh_bool("alloc_null")
            st.allocs[aid] = {"size": lay.size, "align": lay.align, "live": True, "origin": where}
            return Ptr(aid, null)
        if re.search(r"alloc::dealloc$", c):
            p, lay = args
            if not isinstance(p, Ptr) or p.alloc not in st.allocs:
                raise Unsupported("dealloc of unknown pointer")
            a = st.allocs[p.alloc]
            self.oblige(st, z3.BoolVal(a["live"]), "UB:double-free", where)
            self.oblige(st, z3.And(lay.size == a["size"], lay.align == a["align"]), "UB:dealloc-layout-mismatch", where)
            a["live"] = False
            return Struct("()", [])
        if re.search(r"NonNull::<u8>::new$", c):
            p = args[0]
            return Enum(z3.If(p.null, bv(0), bv(1)), {"None": (0, []), "Some": (1, [Ptr(p.alloc, None)])})
        if re.search(r"NonNull::<u8>::new_unchecked$", c):
            return Ptr(args[0].alloc, None)
        if re.search(r"NonNull::<u8>::as_ptr$", c):
            return args[0]
        if re.search(r"slice::from_raw_parts(_mut)?::<'_, u8>$", c):
            p, ln = args
            if not isinstance(p, Ptr) or p.alloc not in st.allocs:
                raise Unsupported("from_raw_parts of unknown pointer")
            a = st.allocs[p.alloc]
            self.oblige(st, z3.BoolVal(a["live"]), "UB:use-after-free", where)
            self.oblige(st, z3.ULE(ln, a["size"]), "UB:slice-exceeds-allocation", where)
            return Slice(p.alloc, bv(0), ln, 1)
        m = re.search(r"<\[u8\] as Index(Mut)?<(?:std::ops::)?(RangeFrom|RangeTo|Range|RangeFull)(?:<usize>)?>>::index(_mut)?$", c)
        if m:
            s, r = args
            kind = m.group(2)
            if kind == "RangeFrom":
                start = r.fields[0]
                self.oblige(st, z3.ULE(start, s.len), "slice-index", where)
                return Slice(s.alloc, s.off + start, s.len - start, 1)
            if kind == "RangeTo":
                end = r.fields[0]
                self.oblige(st, z3.ULE(end, s.len), "slice-index", where)
                return Slice(s.alloc, s.off, end, 1)
            if kind == "Range":
                start, end = r.fields
                self.oblige(st, z3.And(z3.ULE(start, end), z3.ULE(end, s.len)), "slice-index", where)
                return Slice(s.alloc, s.off + start, end - start, 1)
            return s
        if re.search(r"slice::<impl \[u8\]>::copy_from_slice$", c):
            d, s = args
            self.oblige(st, d.len == s.len, "copy_from_slice-length", where)
            st.ghost["writes"].append((d, s))
            return Struct("()", [])
        if re.search(r"slice::<impl \[u8\]>::split_at(_mut)?$", c):
            s, mid = args
            self.oblige(st, z3.ULE(mid, s.len), "slice-index", where)
            return Struct("tuple", [Slice(s.alloc, s.off, mid, 1), Slice(s.alloc, s.off + mid, s.len - mid, 1)])
        m = re.search(r"bytemuck::cast_slice(_mut)?::<u8, (\w+)>$", c)
        if m:
            s = args[0]
            size, align = self.esz(m.group(2))
            al = st.allocs.get(s.alloc)
            if al is None:
                raise Unsupported("cast_slice of foreign slice")
            self.oblige(st, z3.URem(s.len, bv(size)) == bv(0), "cast_slice-size", where)
            self.oblige(st, z3.And(z3.URem(al["align"], bv(align)) == bv(0), z3.URem(s.off, bv(align)) == bv(0)),
                        "cast_slice-alignment", where)
            return Slice(s.alloc, s.off, z3.UDiv(s.len, bv(size)), size)
        m = re.search(r"slice::<impl \[u8\]>::align_to::<(\w+)>$", c)
        if m:
            s = args[0]
            size, align = self.esz(m.group(1))
            al = st.allocs.get(s.alloc)
            if al is None:
                raise Unsupported("align_to of foreign slice")
            # contract of align_to for a base address that is a multiple of the allocation's alignment
            self.oblige(st, z3.URem(al["align"], bv(align)) == bv(0), "align_to-base-alignment-unknown", where)
            pre = z3.URem(bv(align) - z3.URem(s.off, bv(align)), bv(align))
            pre = z3.If(z3.UGT(pre, s.len), s.len, pre)
            mid = z3.UDiv(s.len - pre, bv(size))
            return Struct("tuple", [Slice(s.alloc, s.off, pre, 1), Slice(s.alloc, s.off + pre, mid, size),
                                    Slice(s.alloc, s.off + pre + mid * bv(size), s.len - pre - mid * bv(size), 1)])
        if re.search(r"as AsRef<\[u8\]>>::as_ref$", c):
            r = args[0]
            v = self.read_loc(st, r.key, r.path) if isinstance(r, Ref) else r
            if isinstance(v, Slice):
                return v
            if self.abstract:
                return Opaque("as_ref")
            raise Unsupported("as_ref of %r" % (v,))
        if re.search(r"^Vec::<.*>::len$", c):
            r = args[0]
            v = self.read_loc(st, r.key, r.path)
            if isinstance(v, VecM):
                return v.len
            if self.abstract:
                return Opaque("len of untracked vec")
            raise Unsupported("Vec::len of %r" % (v,))
        if re.search(r"^Vec::<.*>::new$", c):
            return VecM(bv(0))
        if re.search(r"^Vec::<.*>::(push|drain|clear|pop|truncate|insert|remove|swap_remove|append|extend)(::<.*>)?$", c) and args and isinstance(args[0], Ref):
            v = self.read_loc(st, args[0].key, args[0].path)
            if isinstance(v, VecM):
                op = re.search(r"::(push|drain|clear|pop|truncate|insert|remove|swap_remove|append|extend)(::<.*>)?$", c).group(1)
                if op in ("push", "insert"):
                    self.oblige(st, v.len != bv(2 ** 64 - 1), "overflow", where)
                    v.len = v.len + bv(1)
                    st.ghost["events"].append(("chunks.push", where, ""))
                    return Struct("()", [])
                if op in ("drain", "clear"):
                    # drain(..): callers of this model only use the full range (checked syntactically by the harness)
                    st.ghost["events"].append(("chunks." + op, where, c[-40:]))
                    st.ghost["drained"] = v.len
                    v.len = bv(0)
                    return Opaque("drain iterator")
                raise Unsupported("Vec::%s on the tracked chunk list" % op)
            return NotImplemented
        if re.search(r"mem::(take|replace|swap)::<Vec<", c) and args and isinstance(args[0], Ref):
            v = self.read_loc(st, args[0].key, args[0].path)
            if isinstance(v, VecM):
                raise Unsupported("mem::take/replace on the tracked chunk list")
            return NotImplemented
        if re.search(r"as Try>::branch$", c):
            e = args[0]
            if self.abstract and isinstance(e, Opaque):
                dsc = self.fresh("try")
                st.pc.append(z3.Or(dsc == bv(0), dsc == bv(1)))
                return Enum(dsc, {"Continue": (0, [Opaque("ok value")]), "Break": (1, [Opaque("residual")])})
            if not isinstance(e, Enum):
                raise Unsupported("Try::branch of %r" % (e,))
            okv = e.variants.get("Ok", (0, [Opaque("no ok")]))[1]
            return Enum(e.discr, {"Continue": (0, okv), "Break": (1, [Enum(bv(1), {"Err": (1, [Opaque("residual")])})])})
        if re.search(r"as FromResidual<.*>>::from_residual$", c):
            return Enum(bv(1), {"Err": (1, [Opaque("error")])})
        if re.search(r"as Default>::default$", c):
            return Opaque("default")
        return NotImplemented

    # ------------------------------------------------------------------ driver
    def run(self, st, fn, args):
        """explore all paths of fn(args) from st; on_end is called per finished path"""
        self.push_frame(st, fn, args, None, None)
        work = [st]
        while work:
            s = work.pop()
            work.extend(self.step(s))
