import sys, json
sys.path.insert(0,'/verif/mirsmt')
import mir, harness
fns = mir.parse(open('/var/tmp/mirprobe/mir.txt').read())
ctx = harness.Ctx(fns, '/repo')
print(ctx.consts, ctx.layout, ctx.bound_fields)
for h in sys.argv[1:]:
    r = getattr(harness, h)(ctx)
    print(json.dumps(r, indent=1, default=str))
