"""Native replay of Entries-level counterexamples: a generated unit test inside a scratch copy of the crate (child module of
sorter.rs, private access) builds the pre-state of the counterexample on a real allocation, runs the real Entries::insert
and evaluates the harness post-conditions natively (dev profile: overflow checks on)."""
import os
import re
import subprocess

TEST_TARGET = "/var/tmp/grenad-mirsmt-target-test"
MAX_NATIVE = 1 << 26

TEMPLATE = r'''
#[cfg(test)]
mod verif_replay {
    use super::*;

    #[test]
    fn replay_entries_insert() {
        let (l, e, b, k, d): (usize, usize, usize, usize, usize) = (@L@, @E@, @B@, @K@, @D@);
        let mut ent = Entries::with_capacity(l);
        if ent.buffer.len() != l {
            println!("REPLAY unavailable: pre-state length {} not constructible (got {})", l, ent.buffer.len());
            return;
        }
        for x in ent.buffer.iter_mut() { *x = 0; }
        if b > 0 {
            let bounds = cast_slice_mut::<_, EntryBound>(&mut ent.buffer[..b * size_of::<EntryBound>()]);
            bounds[b - 1].key_start = e;
            bounds[b - 1].key_length = e as u32;
        }
        ent.entries_len = e;
        ent.bounds_count = b;
        let key = vec![1u8; k];
        let data = vec![2u8; d];
        let r = std::panic::catch_unwind(std::panic::AssertUnwindSafe(|| { ent.insert(&key, &data); }));
        let mut bad: Vec<String> = Vec::new();
        if r.is_err() {
            bad.push("panicked".to_string());
            std::mem::forget(ent);
        } else {
            let (l2, e2, b2) = (ent.buffer.len(), ent.entries_len, ent.bounds_count);
            if e2 != e + k + d || b2 != b + 1 { bad.push(format!("counters E'={} B'={}", e2, b2)); }
            if l2 % 16 != 0 || e2 > l2 || 16 * b2 > l2 - e2 { bad.push(format!("invariant broken L'={} E'={} B'={}", l2, e2, b2)); }
            let mut x = l;
            while x - (e + 16 * b).min(x) < 16 + k + d { x *= 2; }
            if l2 != x { bad.push(format!("length {} is not the least doubling {}", l2, x)); }
            if bad.is_empty() {
                let eb = cast_slice::<_, EntryBound>(&ent.buffer[..b2 * 16])[b];
                if eb.key_start != e2 || eb.key_length as usize != k || eb.data_length as usize != d {
                    bad.push("stored bound differs".to_string());
                } else {
                    let s = l2 - e2;
                    if ent.buffer[s..s + k] != key[..] || ent.buffer[s + k..s + k + d] != data[..] { bad.push("bytes misplaced".to_string()); }
                }
            }
        }
        println!("REPLAY reproduced={} detail={:?}", !bad.is_empty(), bad);
    }
}
'''


def replay_entries_insert(src, model):
    vals = {n: int(model.get(n, 0)) for n in "LEBkd"}
    if max(vals.values()) > MAX_NATIVE:
        return {"status": "not-attempted", "why": "counterexample sizes exceed %d bytes" % MAX_NATIVE}
    path = os.path.join(src, "src", "sorter.rs")
    orig = open(path).read()
    t = TEMPLATE
    for a, n in (("@L@", "L"), ("@E@", "E"), ("@B@", "B"), ("@K@", "k"), ("@D@", "d")):
        t = t.replace(a, str(vals[n]))
    open(path, "w").write(orig + t)
    env = dict(os.environ, CARGO_NET_OFFLINE="true", CARGO_TARGET_DIR=TEST_TARGET, CARGO_TERM_COLOR="never")
    env.pop("RUSTFLAGS", None)
    try:
        p = subprocess.run(["cargo", "test", "--offline", "--lib", "--no-default-features", "verif_replay", "--", "--nocapture", "--test-threads", "1"],
                           cwd=src, env=env, capture_output=True, text=True, timeout=600)
    except subprocess.TimeoutExpired:
        return {"status": "not-attempted", "why": "native build/run timed out"}
    finally:
        open(path, "w").write(orig)
    m = re.search(r"REPLAY reproduced=(true|false) detail=(.*)", p.stdout)
    if m:
        return {"status": "reproduced" if m.group(1) == "true" else "not-reproduced", "detail": m.group(2)[:300], "pre_state": vals}
    m = re.search(r"REPLAY unavailable: (.*)", p.stdout)
    if m:
        return {"status": "not-attempted", "why": m.group(1)}
    if "overflow" in p.stdout + p.stderr or "panicked" in p.stdout + p.stderr:
        return {"status": "reproduced", "detail": "test aborted: " + (re.findall(r"panicked at [^\n]*\n[^\n]*", p.stdout + p.stderr) or ["panic"])[0][:300], "pre_state": vals}
    return {"status": "not-attempted", "why": "replay test did not build/run: " + (p.stderr[-400:] or p.stdout[-400:])}
