#!/bin/bash
# usage: mut_batch.sh <outfile> <PROP> <only|-> patch...   sequentially run `vk check PROP` against each patch
OUT=$1; PROP=$2; ONLY=$3; shift 3
for P in "$@"; do
  echo "### $P vs $PROP" >> $OUT
  if [ "$ONLY" = "-" ]; then /verif/mut_test.sh $P check $PROP > /tmp/mb.$$ 2>&1; else /verif/mut_test.sh $P check $PROP --only $ONLY > /tmp/mb.$$ 2>&1; fi
  grep "^\s*\[\|VIOLATION\|INCONCLUSIVE\|^OK\|mut_test rc\|patch does not" /tmp/mb.$$ | cut -c1-220 >> $OUT
done
rm -f /tmp/mb.$$
echo "### DONE" >> $OUT
