#!/bin/bash
# C12 is decided by two engines: the Kani harnesses (vk: writer / reader / cursor fault injection) and the MIR->SMT fault-propagation
# analysis of the Sorter's own functions (ms, merged into the same evidence file).  Exit code = first non-zero of the two.
cd "$(dirname "$0")" || exit 2
tier=${1:-quick}
./vk check C12 --tier "$tier"; rc=$?
if [ $rc -ne 0 ]; then exit $rc; fi
./ms check C12 --tier "$tier" --append
