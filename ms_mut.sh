#!/bin/bash
# usage: ms_mut.sh <patch.diff> <ms args...>  - development helper: run ms against a scratch COPY of /repo with a seeded change applied
set -u
P=$1; shift
D=/var/tmp/msmut.$$
rsync -a --exclude /target /repo/ $D/
( cd $D && git apply "$P" ) || { echo "patch does not apply"; rm -rf $D; exit 3; }
cd /verif && VERIF_REPO=$D MS_EVIDENCE_DIR=$D/.ms_evidence ./ms "$@"; rc=$?
rm -rf $D
echo "ms_mut rc=$rc"
exit $rc
