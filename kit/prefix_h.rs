// C05: PrefixIter / RevPrefixIter / advance_key (real code) over the real cursor glue over abstract blocks.
// Child module of crate::reader::prefix_iter.
#![allow(dead_code)]
use std::mem;

use super::*;
use crate::block::verif_ac::*;
use crate::metadata::FileVersion;
use crate::reader::reader_cursor::verif_h::{any_probe, any_probe_spec, build_layout, check_strong, eidx, glue_harness, glue_harness_with, open, set_contract_layout, strong_state, Probe};
include!("layout_consts_gen.rs");

fn has_prefix(k: &[u8], p: &[u8]) -> bool {
    if k.len() < p.len() {
        return false;
    }
    let mut i = 0;
    while i < 4 {
        if i < p.len() && k[i] != p[i] {
            return false;
        }
        i += 1;
    }
    true
}

/// rank of a byte string of length <= 5 is not available; compare two strings lexicographically by hand.
fn lex_lt(a: &[u8], b: &[u8]) -> bool {
    let mut i = 0;
    while i < 5 {
        if i >= a.len() {
            return i < b.len();
        }
        if i >= b.len() {
            return false;
        }
        if a[i] != b[i] {
            return a[i] < b[i];
        }
        i += 1;
    }
    false
}

/// K: advance_key(p) for every p of length <= 4: None iff p is empty or all 0xFF; otherwise for every s of
/// length <= 5: s starts with p => s < adv(p), and p <= s < adv(p) => s starts with p.
#[kani::proof]
#[kani::unwind(7)]
fn c05_advance_key() {
    let pb: [u8; 4] = kani::any();
    let plen: usize = kani::any();
    kani::assume(plen <= 4);
    let p = &pb[..plen];
    let mut all_ff = true;
    let mut i = 0;
    while i < 4 {
        if i < plen && pb[i] != 0xFF {
            all_ff = false;
        }
        i += 1;
    }
    let sb: [u8; 5] = kani::any();
    let slen: usize = kani::any();
    kani::assume(slen <= 5);
    let s = &sb[..slen];
    match advance_key(p.to_vec()) {
        None => assert!(all_ff, "advance_key gave up on a prefix that has a successor"),
        Some(a) => {
            assert!(!all_ff, "advance_key invented a successor for an empty / all-0xFF prefix");
            assert!(a.len() >= 1 && a.len() <= plen);
            if has_prefix(s, p) {
                assert!(lex_lt(s, &a), "a key with the prefix is not below advance_key(prefix)");
            }
            if !lex_lt(s, p) && lex_lt(s, &a) {
                assert!(has_prefix(s, p), "a key in [prefix, advance_key(prefix)) lacks the prefix");
            }
            kani::cover!(plen == 3 && pb[2] == 0xFF && pb[1] == 0xFF && a.len() == 1);
            kani::cover!(plen == 4 && a.len() == 4);
            mem::forget(a);
        }
    }
    kani::cover!(plen == 0);
    kani::cover!(plen == 2 && all_ff);
}

pub(crate) fn prefix_check(layout: u8, reverse: bool, minlen: usize, maxlen: usize, probe_max: usize) {
    reset_tables();
    let l = build_layout(layout, minlen, maxlen);
    let p = any_probe(probe_max);
    let pfx = &p.b[..p.len];
    let c = open(&l, FileVersion::FormatV2);
    let n = l.n;
    let mut first: Option<usize> = None;
    let mut last: Option<usize> = None;
    let mut i = 0;
    while i < MAXE {
        if i < n && has_prefix(key_of(i), pfx) {
            if first.is_none() {
                first = Some(i);
            }
            last = Some(i);
        }
        i += 1;
    }
    let expect = match (first, last) {
        (Some(f), Some(la)) => la - f + 1,
        _ => 0,
    };
    let mut yielded = 0usize;
    if !reverse {
        let mut it = PrefixIter::new(c, pfx.to_vec());
        let mut step = 0;
        while step <= MAXE {
            if step <= n {
                match eidx(it.next(), n) {
                    Ok(Some(g)) => {
                        assert!(first.is_some(), "C05: prefix iterator yielded an entry although no key has the prefix");
                        assert!(g == first.unwrap() + yielded, "C05: forward prefix iterator yielded a wrong or out-of-order entry");
                        assert!(g <= last.unwrap(), "C05: forward prefix iterator yielded an entry without the prefix");
                        yielded += 1;
                    }
                    Ok(None) => {
                        assert!(yielded == expect, "C05: forward prefix iterator stopped before yielding every entry with the prefix");
                        break;
                    }
                    Err(()) => panic!("prefix iterator failed without an I/O fault"),
                }
            }
            step += 1;
        }
        mem::forget(it);
    } else {
        let mut it = RevPrefixIter::new(c, pfx.to_vec());
        let mut step = 0;
        while step <= MAXE {
            if step <= n {
                match eidx(it.next(), n) {
                    Ok(Some(g)) => {
                        assert!(last.is_some(), "C05: reverse prefix iterator yielded an entry although no key has the prefix");
                        assert!(g + yielded == last.unwrap(), "C05: reverse prefix iterator yielded a wrong or out-of-order entry");
                        assert!(g >= first.unwrap(), "C05: reverse prefix iterator yielded an entry without the prefix");
                        yielded += 1;
                    }
                    Ok(None) => {
                        assert!(yielded == expect, "C05: reverse prefix iterator stopped before yielding every entry with the prefix");
                        break;
                    }
                    Err(()) => panic!("prefix iterator failed without an I/O fault"),
                }
            }
            step += 1;
        }
        mem::forget(it);
    }
    if n >= 2 {
        kani::cover!(p.len == 0);
        kani::cover!(expect == 0 && p.len >= 1 && rank(pfx) < rank(key_of(0)));
        kani::cover!(expect == 0 && p.len >= 1 && rank(pfx) > rank(key_of(n - 1)));
        kani::cover!(expect >= 2);
        kani::cover!(expect == 1 && p.len >= 1 && p.b[p.len - 1] == 0xFF);
        kani::cover!(first.is_some() && rank(pfx) == rank(key_of(first.unwrap())));
    }
}

fn prefix_span(n: usize, pfx: &[u8]) -> (Option<usize>, Option<usize>) {
    let mut first: Option<usize> = None;
    let mut last: Option<usize> = None;
    let mut i = 0;
    while i < MAXE {
        if i < n && has_prefix(key_of(i), pfx) {
            if first.is_none() {
                first = Some(i);
            }
            last = Some(i);
        }
        i += 1;
    }
    (first, last)
}

pub(crate) struct PrefixFacts {
    pub plen: usize,
    pub last_byte: u8,
    pub pr: u32,
    pub n: usize,
    pub expect: Option<usize>,
    pub i: usize,
}

/// FIRST call of next() on a fresh prefix iterator.
pub(crate) fn prefix_first(layout: u8, reverse: bool, minlen: usize, maxlen: usize, probe_max: usize, seek_finds: Option<bool>) -> PrefixFacts {
    reset_tables();
    let l = build_layout(layout, minlen, maxlen);
    set_contract_layout(&l);
    let p = any_probe_spec(probe_max);
    let pfx = &p.b[..p.len];
    let c = open(&l, FileVersion::FormatV2);
    let n = l.n;
    let (first, last) = prefix_span(n, pfx);
    if let Some(finds) = seek_finds {
        let found = if !reverse {
            crate::reader::reader_cursor::verif_h::ceiling(rank(pfx), n).is_some()
        } else {
            // reverse: the <= seek on advance_key(prefix); when the prefix has no successor the real move_on_last runs
            let mut succ = [0u8; 3];
            let mut sl = p.len;
            let mut j = 0;
            while j < 3 {
                succ[j] = p.b[j];
                j += 1;
            }
            while sl > 0 && succ[sl - 1] == 0xFF {
                sl -= 1;
            }
            if sl == 0 {
                finds // no <= seek happens: class irrelevant
            } else {
                succ[sl - 1] += 1;
                crate::reader::reader_cursor::verif_h::floor(rank(&succ[..sl]), n).is_some()
            }
        };
        kani::assume(found == finds);
    }
    let expect;
    if !reverse {
        expect = first;
        let mut it = PrefixIter::new(c, pfx.to_vec());
        match eidx(it.next(), n) {
            Ok(g) => assert!(g == expect, "C05: forward prefix iterator does not start on the first entry with the prefix"),
            Err(()) => panic!("prefix iterator failed without an I/O fault"),
        }
        if let Some(i) = expect {
            check_strong(&it.cursor, &l, i);
        }
        mem::forget(it);
    } else {
        expect = last;
        let mut it = RevPrefixIter::new(c, pfx.to_vec());
        match eidx(it.next(), n) {
            Ok(g) => assert!(g == expect, "C05: reverse prefix iterator does not start on the last entry with the prefix"),
            Err(()) => panic!("prefix iterator failed without an I/O fault"),
        }
        if let Some(i) = expect {
            check_strong(&it.cursor, &l, i);
        }
        mem::forget(it);
    }
    PrefixFacts { plen: p.len, last_byte: if p.len > 0 { p.b[p.len - 1] } else { 0 }, pr: rank(pfx), n, expect, i: 0 }
}

/// Any LATER call: cursor (RI-strong) on the entry i with the prefix yielded last.
pub(crate) fn prefix_step(layout: u8, reverse: bool, minlen: usize, maxlen: usize, probe_max: usize) -> PrefixFacts {
    reset_tables();
    let l = build_layout(layout, minlen, maxlen);
    let p = any_probe_spec(probe_max);
    let pfx = &p.b[..p.len];
    let n = l.n;
    let i: usize = kani::any();
    kani::assume(i < n);
    kani::assume(has_prefix(key_of(i), pfx));
    let c = strong_state(&l, i, FileVersion::FormatV2);
    let expect;
    if !reverse {
        expect = if i + 1 < n && has_prefix(key_of(i + 1), pfx) { Some(i + 1) } else { None };
        let mut it = PrefixIter { cursor: c, move_on_first_prefix: false, prefix: pfx.to_vec() };
        match eidx(it.next(), n) {
            Ok(g) => assert!(g == expect, "C05: forward prefix iterator skipped, repeated or over-ran an entry"),
            Err(()) => panic!("prefix iterator failed without an I/O fault"),
        }
        mem::forget(it);
    } else {
        expect = if i > 0 && has_prefix(key_of(i - 1), pfx) { Some(i - 1) } else { None };
        let mut it = RevPrefixIter { cursor: c, move_on_last_prefix: false, prefix: pfx.to_vec() };
        match eidx(it.next(), n) {
            Ok(g) => assert!(g == expect, "C05: reverse prefix iterator skipped, repeated or over-ran an entry"),
            Err(()) => panic!("prefix iterator failed without an I/O fault"),
        }
        mem::forget(it);
    }
    PrefixFacts { plen: p.len, last_byte: if p.len > 0 { p.b[p.len - 1] } else { 0 }, pr: rank(pfx), n, expect, i }
}

include!("prefix_gen.rs");
