// Sorter kernels (C07 entries sort, C08 spill decision / clamps, C17 buffer management).
// Child module of crate::sorter: sees Entries, EntryBoundAlignedBuffer, Sorter's fields and the private constants.
#![allow(dead_code)]
use std::borrow::Cow;
use std::mem;

use super::*;

struct FirstMerge;
impl MergeFunction for FirstMerge {
    type Error = Infallible;
    fn merge<'a>(&self, _key: &[u8], values: &[Cow<'a, [u8]>]) -> Result<Cow<'a, [u8]>, Infallible> {
        Ok(values[0].clone())
    }
}

/// C17 + C07: real Entries (raw alloc / dealloc, two-ended bookkeeping, doubling copy, bytemuck casts, std sort).
/// `cap` small so that inserts force reallocation / exact fit; lengths concrete, contents symbolic.
/// After sort_by_key(algo) iter() yields a permutation of the inserts with non-decreasing keys; Stable keeps the
/// insertion order of equal keys. Kani's pointer / bounds / dealloc-layout / overflow checks are the UB assertions.
/// lighter variant: inserts (with reallocation), read everything back unsorted in insertion order, drop
fn entries_rw_check(cap: usize, n: usize, kl: [usize; 3], vl: [usize; 3]) -> (usize, bool) {
    let k: [[u8; 2]; 3] = kani::any();
    let v: [[u8; 2]; 3] = kani::any();
    let mut e = Entries::with_capacity(cap);
    let cap0 = e.memory_usage();
    assert!(cap0 % 16 == 0 && cap0 >= cap && cap0 < cap + 16);
    let mut i = 0;
    while i < 3 {
        if i < n {
            let fits = e.fits(&k[i][..kl[i]], &v[i][..vl[i]]);
            let before = e.memory_usage();
            e.insert(&k[i][..kl[i]], &v[i][..vl[i]]);
            assert!(fits == (e.memory_usage() == before), "fits() must predict whether insert reallocates");
        }
        i += 1;
    }
    let grew = e.memory_usage() > cap0;
    let mut count = 0;
    for (key, val) in e.iter() {
        assert!(count < n);
        assert!(key.len() == kl[count] && val.len() == vl[count], "C17/C07: entry lengths corrupted by the buffer");
        let mut b = 0;
        while b < 2 {
            if b < key.len() {
                assert!(key[b] == k[count][b], "C17/C07: key bytes corrupted by the buffer (reallocation copy?)");
            }
            if b < val.len() {
                assert!(val[b] == v[count][b], "C17/C07: value bytes corrupted by the buffer");
            }
            b += 1;
        }
        count += 1;
    }
    assert!(count == n);
    drop(e);
    (count, grew)
}

fn entries_check(cap: usize, n: usize, kl: [usize; 3], vl: [usize; 3], stable: bool) -> (usize, bool) {
    let k: [[u8; 2]; 3] = kani::any();
    let v: [[u8; 2]; 3] = kani::any();
    let mut e = Entries::with_capacity(cap);
    let cap0 = e.memory_usage();
    assert!(cap0 % 16 == 0 && cap0 >= cap && cap0 < cap + 16);
    let mut i = 0;
    while i < 3 {
        if i < n {
            let fits = e.fits(&k[i][..kl[i]], &v[i][..vl[i]]);
            let before = e.memory_usage();
            e.insert(&k[i][..kl[i]], &v[i][..vl[i]]);
            assert!(fits == (e.memory_usage() == before), "fits() must predict whether insert reallocates");
            assert!(e.memory_usage() % 16 == 0);
        }
        i += 1;
    }
    let grew = e.memory_usage() > cap0;
    e.sort_by_key(if stable { SortAlgorithm::Stable } else { SortAlgorithm::Unstable });
    // read everything back
    let mut seen = [false; 3];
    let mut count = 0;
    let mut prev: Option<(usize, [u8; 2], usize)> = None; // (klen, key, original index)
    for (key, val) in e.iter() {
        // which insert is it? match on key bytes + value bytes + lengths, first unseen
        let mut found = 3;
        let mut j = 0;
        while j < 3 {
            if j < n && !seen[j] && found == 3 && key.len() == kl[j] && val.len() == vl[j] {
                let mut same = true;
                let mut b = 0;
                while b < 2 {
                    if b < kl[j] && key[b] != k[j][b] {
                        same = false;
                    }
                    if b < vl[j] && val[b] != v[j][b] {
                        same = false;
                    }
                    b += 1;
                }
                if same {
                    found = j;
                }
            }
            j += 1;
        }
        assert!(found < 3, "C07: the buffer yields an entry that was never inserted (or twice)");
        seen[found] = true;
        let mut kk = [0u8; 2];
        let mut b = 0;
        while b < 2 {
            if b < key.len() {
                kk[b] = key[b];
            }
            b += 1;
        }
        if let Some((pl, pk, _pi)) = prev {
            // non-decreasing keys (lexicographic on <= 2 bytes)
            let le = if pl == 0 {
                true
            } else if key.len() == 0 {
                false
            } else if pk[0] != kk[0] {
                pk[0] < kk[0]
            } else if pl == 1 {
                true
            } else if key.len() == 1 {
                false
            } else {
                pk[1] <= kk[1]
            };
            assert!(le, "C07: entries are not sorted by key after sort_by_key");
        }
        prev = Some((key.len(), kk, found));
        count += 1;
    }
    assert!(count == n, "C07: entries lost or duplicated by the buffer");
    e.clear();
    assert!(e.estimated_entries_memory_usage() == 0);
    drop(e); // dealloc with the same layout as alloc (Kani checks the size)
    (count, grew)
}

include!("sorter_gen.rs");

/// C08 clamps: effective budget = max(memory, 10 MiB); max chunks = max(n, 1).
#[kani::proof]
fn c08_clamps() {
    let m: usize = kani::any();
    let c: usize = kani::any();
    let mut b = SorterBuilder::new(FirstMerge).chunk_creator(CursorVec);
    b.dump_threshold(m);
    b.max_nb_chunks(c);
    assert!(b.dump_threshold == if m < 10_485_760 { 10_485_760 } else { m });
    assert!(b.max_nb_chunks == if c < 1 { 1 } else { c });
    let d = SorterBuilder::new(FirstMerge);
    assert!(d.dump_threshold == 1_073_741_824 && d.max_nb_chunks == 25 && d.allow_realloc);
    kani::cover!(m == 10_485_759);
    kani::cover!(c == 0);
}

// ---- C08 step: the spill decision of Sorter::insert over an abstract buffer
// Entries::insert, write_chunk and merge_chunks are replaced by counting models (the real Entries is C17's subject; the
// real write_chunk/merge_chunks need the writer->reader pipeline, which is not encodable). The buffer is a header
// with symbolic length over a 16-byte allocation: only fits()/remaining()/memory_usage() look at it.
pub(crate) static mut SPILLS: usize = 0x5EED_0501;
pub(crate) static mut MERGES: usize = 0x5EED_0502;
pub(crate) static mut MAX_LIVE: usize = 0x5EED_0503;

impl Entries {
    /// model of Entries::insert on counters only: doubles the (abstract) buffer until the entry fits
    pub(crate) fn insert_model(&mut self, key: &[u8], data: &[u8]) {
        let need = 16 + key.len() + data.len();
        let mut g = 0;
        while g < 2 {
            let aligned = self.buffer.len / 16;
            let fits = self.buffer.len - self.entries_len - self.bounds_count * 16 >= need && aligned - self.bounds_count >= 1;
            if !fits {
                self.buffer.len *= 2;
            }
            g += 1;
        }
        assert!(self.buffer.len - self.entries_len - self.bounds_count * 16 >= need, "model bound: entry fits after <= 2 doublings");
        self.entries_len += key.len() + data.len();
        self.bounds_count += 1;
    }
}

impl<MF: MergeFunction, CC: ChunkCreator> Sorter<MF, CC> {
    pub(crate) fn write_chunk_model(&mut self) -> crate::Result<u64, MF::Error> {
        let chunk = match self.chunk_creator.create() {
            Ok(c) => c,
            Err(e) => return Err(e.into().convert_merge_error()),
        };
        self.chunks.push(chunk);
        self.entries.clear();
        unsafe {
            SPILLS += 1;
            if self.chunks.len() > MAX_LIVE {
                MAX_LIVE = self.chunks.len();
            }
        }
        Ok(0)
    }
    pub(crate) fn merge_chunks_model(&mut self) -> crate::Result<u64, MF::Error> {
        let chunk = match self.chunk_creator.create() {
            Ok(c) => c,
            Err(e) => return Err(e.into().convert_merge_error()),
        };
        unsafe {
            MERGES += 1;
            if self.chunks.len() + 1 > MAX_LIVE {
                MAX_LIVE = self.chunks.len() + 1; // the merged chunk exists while its inputs still do
            }
        }
        let mut d = 0;
        while d < 6 {
            if let Some(c) = self.chunks.pop() {
                mem::forget(c);
            }
            d += 1;
        }
        self.chunks.push(chunk);
        Ok(0)
    }
}

/// One insert from every state satisfying the invariant; T (budget) and L (buffer length) symbolic in a scaled range.
#[kani::proof]
#[kani::unwind(7)]
#[kani::stub(Entries::insert, Entries::insert_model)]
#[kani::stub(Sorter::write_chunk, Sorter::write_chunk_model)]
#[kani::stub(Sorter::merge_chunks, Sorter::merge_chunks_model)]
fn c08_insert_step() {
    let t: usize = 1024; // effective budget (dump_threshold), scaled to 1 KiB
    let allow_realloc: bool = kani::any();
    let l: usize = kani::any(); // current buffer length
    kani::assume(l % 16 == 0 && l >= 128);
    // invariant on the buffer: without reallocation it is the budget rounded up; with reallocation it never reached 2T
    if allow_realloc {
        kani::assume(l < 2 * t);
    } else {
        kani::assume(l == (t + 15) / 16 * 16);
    }
    let entries_len: usize = kani::any();
    let bounds_count: usize = kani::any();
    kani::assume(bounds_count <= 256 && entries_len <= l && entries_len + 16 * bounds_count <= l);
    let max_nb_chunks: usize = kani::any();
    kani::assume(max_nb_chunks >= 1 && max_nb_chunks <= 3);
    let nchunks: usize = kani::any();
    // invariant on the chunk list: merged as soon as the maximum is reached
    kani::assume(nchunks <= if max_nb_chunks > 1 { max_nb_chunks - 1 } else { 1 });
    let klen: usize = kani::any();
    let vlen: usize = kani::any();
    kani::assume(klen <= 4 && vlen <= 60); // entries small relative to the budget
    let layout = Layout::from_size_align(16, align_of::<EntryBound>()).unwrap();
    let data = unsafe { alloc(layout) };
    let data = match NonNull::new(data) {
        Some(p) => p,
        None => return,
    };
    let mut chunks = Vec::with_capacity(8);
    let mut c = 0;
    while c < 3 {
        if c < nchunks {
            chunks.push(Cursor::new(Vec::new()));
        }
        c += 1;
    }
    let mut s: Sorter<FirstMerge, CursorVec> = Sorter {
        chunks,
        entries: Entries { buffer: EntryBoundAlignedBuffer { data, len: l }, entries_len, bounds_count },
        chunks_total_size: 0,
        allow_realloc,
        dump_threshold: t,
        max_nb_chunks,
        chunk_compression_type: None,
        chunk_compression_level: None,
        index_key_interval: None,
        block_size: None,
        index_levels: None,
        chunk_creator: CursorVec,
        sort_algorithm: SortAlgorithm::Stable,
        sort_in_parallel: false,
        merge_function: FirstMerge,
    };
    unsafe {
        SPILLS = 0;
        MERGES = 0;
        MAX_LIVE = nchunks;
    }
    let key = [0u8; 4];
    let val = [0u8; 60];
    let volume_before = entries_len + 16 * bounds_count;
    match s.insert(&key[..klen], &val[..vlen]) {
        Ok(()) => {}
        Err(e) => {
            mem::forget(e);
            panic!("insert failed although no component failed");
        }
    }
    let spills = unsafe { SPILLS };
    let l2 = s.entries.buffer.len;
    let volume = s.entries.entries_len + 16 * s.entries.bounds_count;
    // C08: data inserted since the last spill stays within twice the budget (the budget itself without reallocation)
    assert!(volume <= l2);
    if allow_realloc {
        assert!(l2 < 2 * t, "C08: the in-memory buffer reached twice the budget without a spill");
    } else {
        assert!(l2 == l, "C08: the buffer grew although reallocation is disabled");
    }
    assert!(spills <= 1);
    if spills == 1 {
        assert!(volume == 16 + klen + vlen, "a spill empties the buffer before the new entry goes in");
    } else {
        assert!(volume == volume_before + 16 + klen + vlen);
    }
    // C08: live chunks never exceed the maximum plus two; the list is merged as soon as the maximum is reached
    assert!(unsafe { MAX_LIVE } <= max_nb_chunks + 2, "C08: more chunks alive than the configured maximum plus two");
    assert!(s.chunks.len() <= if max_nb_chunks > 1 { max_nb_chunks - 1 } else { 1 }, "C08: chunks were not merged when their number reached the maximum");
    kani::cover!(spills == 1 && unsafe { MERGES } == 1);
    kani::cover!(spills == 1 && unsafe { MERGES } == 0);
    kani::cover!(spills == 0 && l2 > l);
    kani::cover!(spills == 0 && l2 == l);
    kani::cover!(!allow_realloc && spills == 1);
    kani::cover!(max_nb_chunks == 1 && spills == 1);
    mem::forget(s);
}

#[kani::proof]
#[kani::unwind(8)]
fn c17_entries_rw_c16_n2() {
    let (count, grew) = entries_rw_check(16, 2, [1, 2, 0], [2, 0, 0]);
    kani::cover!(count == 2 && grew);
}
#[kani::proof]
#[kani::unwind(8)]
fn c17_entries_rw_c64_n3() {
    let (count, _grew) = entries_rw_check(64, 3, [1, 0, 2], [0, 2, 1]);
    kani::cover!(count == 3);
}
#[kani::proof]
#[kani::unwind(8)]
fn c07_entries_sort2() {
    let (count, _) = entries_check(64, 2, [1, 1, 0], [1, 1, 0], true);
    kani::cover!(count == 2);
}
