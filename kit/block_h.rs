// L2: real BlockWriter -> bytes -> real Block::new(&[u8]) -> real BlockCursor, against the array-cursor
// model AC (sorted array + position) that the L3 glue harnesses use in place of real blocks.
// Child module of crate::block: sees Block's and BlockCursor's private fields.
use std::mem;
use std::num::NonZeroUsize;

use super::verif_ac::{ac_step, rank, Pos, MAXN, OP_CURRENT, OP_FIRST, OP_GE, OP_LAST, OP_LE, OP_NEXT, OP_PREV};
use super::*;
use crate::block_writer::BlockWriter;


#[derive(Clone, Copy)]
pub(crate) struct Ent {
    pub klen: usize,
    pub k: [u8; 2],
    pub vlen: usize,
    pub v: [u8; 2],
}

impl Ent {
    pub fn key(&self) -> &[u8] {
        &self.k[..self.klen]
    }
    pub fn val(&self) -> &[u8] {
        &self.v[..self.vlen]
    }
    /// framed size: two 1-byte varints + key + value (lengths < 128)
    pub fn size(&self) -> usize {
        2 + self.klen + self.vlen
    }
}

pub(crate) fn any_ent() -> Ent {
    let e = Ent { klen: kani::any(), k: kani::any(), vlen: kani::any(), v: kani::any() };
    kani::assume(e.klen <= 2 && e.vlen <= 2);
    e
}

/// n <= 3 entries with strictly ascending keys (by rank).
pub(crate) fn any_sorted(n: usize) -> [Ent; MAXN] {
    let es = [any_ent(), any_ent(), any_ent()];
    if n >= 2 {
        kani::assume(rank(es[0].key()) < rank(es[1].key()));
    }
    if n >= 3 {
        kani::assume(rank(es[1].key()) < rank(es[2].key()));
    }
    es
}

/// es[i] without a symbolic index (CBMC 6.11 returned inconsistent values for symbolic-index reads of arrays of
/// structs with mixed field sizes; observed twice, see DESIGN.md §9).
pub(crate) fn pick(es: &[Ent; MAXN], i: usize) -> Ent {
    if i == 0 {
        es[0]
    } else if i == 1 {
        es[1]
    } else {
        es[2]
    }
}

pub(crate) fn entry_offset(es: &[Ent; MAXN], i: usize) -> usize {
    let mut off = 0;
    let mut j = 0;
    while j < MAXN {
        if j < i {
            off += es[j].size();
        }
        j += 1;
    }
    off
}

pub(crate) const MAXBLOCK: usize = MAXN * 6 + 8 * MAXN + 4; // payload + offsets + count

/// Build the block with the real BlockWriter and load it with the real Block::new through `&[u8]`.
pub(crate) fn real_block(es: &[Ent; MAXN], n: usize, interval: usize) -> Block {
    let mut b = BlockWriter::builder();
    b.index_key_interval(NonZeroUsize::new(interval).unwrap());
    let mut bw = b.build();
    let mut i = 0;
    while i < MAXN {
        if i < n {
            bw.insert(es[i].key(), es[i].val());
        }
        i += 1;
    }
    // `len ‖ body` is presented to Block::new as a chained reader (no copy of the symbolic body).
    let res = {
        let buf = bw.finish();
        let body: &[u8] = buf.as_ref();
        assert!(body.len() <= MAXBLOCK);
        let lp = (body.len() as u64).to_be_bytes();
        let mut src = std::io::Read::chain(&lp[..], body);
        let r = Block::new(&mut src, CompressionType::None);
        mem::forget(buf);
        r
    };
    mem::forget(bw);
    match res {
        Ok(b) => b,
        Err(e) => {
            mem::forget(e);
            panic!("Block::new failed on a block written by BlockWriter");
        }
    }
}

/// Abstraction function: real cursor state -> AC position (panics if the offset is not an entry boundary).
pub(crate) fn alpha(c: &BlockCursor<Block>, es: &[Ent; MAXN], n: usize) -> Pos {
    match c.current_offset {
        None => None,
        Some(off) => {
            let mut i = 0;
            while i <= MAXN {
                if i <= n && entry_offset(es, i) == off {
                    return Some(i);
                }
                i += 1;
            }
            panic!("cursor offset is not an entry boundary");
        }
    }
}

pub(crate) fn set_pos(c: &mut BlockCursor<Block>, es: &[Ent; MAXN], p: Pos) {
    c.current_offset = match p {
        None => None,
        Some(i) => Some(entry_offset(es, i)),
    };
}

pub(crate) fn any_pos(n: usize) -> Pos {
    if kani::any() {
        None
    } else {
        let i: usize = kani::any();
        kani::assume(i <= n);
        Some(i)
    }
}

fn do_real<'a>(c: &'a mut BlockCursor<Block>, op: u8, q: &[u8]) -> Option<(&'a [u8], &'a [u8])> {
    match op {
        OP_CURRENT => c.current(),
        OP_FIRST => c.move_on_first(),
        OP_LAST => c.move_on_last(),
        OP_NEXT => c.move_on_next(),
        OP_PREV => c.move_on_prev(),
        OP_GE => c.move_on_key_greater_than_or_equal_to(q),
        _ => c.move_on_key_lower_than_or_equal_to(q),
    }
}

fn same(a: &[u8], b: &[u8]) -> bool {
    if a.len() != b.len() {
        return false;
    }
    let mut i = 0;
    while i < 2 {
        if i < a.len() && a[i] != b[i] {
            return false;
        }
        i += 1;
    }
    true
}

/// The block built by the real BlockWriter, handed to the cursor through a typed constructor (buffer and offset
/// table are the writer's own vectors; footer parsing by Block::new is the subject of c01_block_new_*).
pub(crate) fn typed_block(es: &[Ent; MAXN], n: usize, interval: usize) -> Block {
    let mut b = BlockWriter::builder();
    b.index_key_interval(NonZeroUsize::new(interval).unwrap());
    let mut bw = b.build();
    let mut i = 0;
    while i < MAXN {
        if i < n {
            bw.insert(es[i].key(), es[i].val());
        }
        i += 1;
    }
    let (buffer, index_offsets, payload_size) = crate::block_writer::verif_h::finish_parts(bw);
    Block { compression_type: CompressionType::None, buffer, payload_size, index_offsets }
}

/// Independent reference encoder of one block (format text of C09): varint-framed entries, u64 BE offsets of every
/// `interval`-th entry starting with 0, u32 BE count. Arrays only; shares no code with the crate.
pub(crate) struct RefBlock {
    pub bytes: [u8; MAXBLOCK],
    pub len: usize,
    pub payload: usize,
    pub offsets: [u64; MAXN],
    pub noffsets: usize,
}

pub(crate) fn ref_block(es: &[Ent; MAXN], n: usize, interval: usize) -> RefBlock {
    let mut r = RefBlock { bytes: [0; MAXBLOCK], len: 0, payload: 0, offsets: [0; MAXN], noffsets: 1 };
    let mut pos = 0usize;
    let mut i = 0;
    while i < MAXN {
        if i < n {
            if i > 0 && i % interval == 0 {
                r.offsets[r.noffsets] = pos as u64;
                r.noffsets += 1;
            }
            r.bytes[pos] = es[i].klen as u8; // lengths < 128: one-byte varints
            r.bytes[pos + 1] = es[i].vlen as u8;
            pos += 2;
            let mut j = 0;
            while j < 2 {
                if j < es[i].klen {
                    r.bytes[pos] = es[i].k[j];
                    pos += 1;
                }
                j += 1;
            }
            let mut j = 0;
            while j < 2 {
                if j < es[i].vlen {
                    r.bytes[pos] = es[i].v[j];
                    pos += 1;
                }
                j += 1;
            }
        }
        i += 1;
    }
    r.payload = pos;
    let mut t = 0;
    while t < MAXN {
        if t < r.noffsets {
            let be = r.offsets[t].to_be_bytes();
            let mut j = 0;
            while j < 8 {
                r.bytes[pos + j] = be[j];
                j += 1;
            }
            pos += 8;
        }
        t += 1;
    }
    let c = (r.noffsets as u32).to_be_bytes();
    let mut j = 0;
    while j < 4 {
        r.bytes[pos + j] = c[j];
        j += 1;
    }
    r.len = pos + 4;
    r
}

/// A Block over the reference encoding, through a typed constructor (one copy of concrete size).
pub(crate) fn ref_typed_block(es: &[Ent; MAXN], n: usize, interval: usize) -> Block {
    let r = ref_block(es, n, interval);
    let buffer = r.bytes.to_vec();
    let mut index_offsets = Vec::with_capacity(MAXN);
    let mut t = 0;
    while t < MAXN {
        if t < r.noffsets {
            index_offsets.push(r.offsets[t]);
        }
        t += 1;
    }
    Block { compression_type: CompressionType::None, buffer, payload_size: r.payload, index_offsets }
}

/// AC ⊑ BlockCursor for one operation: from every abstract pre-state, result(real) = result(AC) and
/// alpha(real') = AC'. Also the specification of C02 (in-block ceiling/floor) and C03 (in-block moves).
fn block_op_check(op: u8, interval: usize, nmin: usize, nmax: usize) {
    let f = block_op_check_full(op, interval, nmin, nmax, None, true, None);
    covers_full(&f, nmin, nmax);
}

pub(crate) struct BlockFacts {
    n: usize,
    p: Pos,
    qr: u32,
    qlen: usize,
    r0: u32,
    r1: u32,
    r2: u32,
    k0len: usize,
    ext: bool,
}

fn covers_basic(f: &BlockFacts, nmax: usize) {
    kani::cover!(f.n == nmax && f.p == Some(nmax));
    kani::cover!(f.n == nmax && f.p.is_none());
    kani::cover!(nmax == 0 || (f.n >= 1 && f.qr == f.r0));
    kani::cover!(nmax == 0 || (f.n >= 1 && f.qlen == 0));
}

fn covers_full(f: &BlockFacts, nmin: usize, nmax: usize) {
    covers_basic(f, nmax);
    kani::cover!(f.n == nmin);
    kani::cover!(f.n >= 1 && f.qr < f.r0);
    if nmax == MAXN {
        kani::cover!(f.n == MAXN && f.qr > f.r1 && f.qr < f.r2);
        kani::cover!(f.n == MAXN && f.ext);
    }
    kani::cover!(f.n >= 2 && f.k0len == 0);
}

fn block_op_check_full(op: u8, interval: usize, nmin: usize, nmax: usize, vfix: Option<usize>, sym_pos: bool,
                       lens: Option<([usize; MAXN], [usize; MAXN])>) -> BlockFacts {
    let n: usize = if nmin == nmax { nmin } else { kani::any() };
    kani::assume(n >= nmin && n <= nmax);
    let mut es = any_sorted(n);
    if let Some(v) = vfix {
        kani::assume(es[0].vlen == v && es[1].vlen == v && es[2].vlen == v);
    }
    if let Some((kl, vl)) = lens {
        let mut i = 0;
        while i < MAXN {
            kani::assume(es[i].klen == kl[i] && es[i].vlen == vl[i]);
            es[i].klen = kl[i];
            es[i].vlen = vl[i];
            i += 1;
        }
    }
    let ranks = [rank(es[0].key()), rank(es[1].key()), rank(es[2].key())];
    let block = ref_typed_block(&es, n, interval);
    let mut c = block.into_cursor();
    let p = if sym_pos { any_pos(n) } else { None };
    set_pos(&mut c, &es, p);

    let qlen: usize = kani::any();
    kani::assume(qlen <= 3);
    let qb: [u8; 3] = kani::any();
    let q = &qb[..qlen];
    let qr = rank(q);

    let (p2, exp) = ac_step(op, p, n, qr, |i| ranks[i]);
    match do_real(&mut c, op, q) {
        Some((k, v)) => match exp {
            Some(i) => {
                let e = pick(&es, i);
                assert!(same(k, e.key()), "wrong key returned");
                assert!(same(v, e.val()), "wrong value returned");
            }
            None => panic!("returned an entry where the specification says None"),
        },
        None => assert!(exp.is_none(), "returned None where the specification says an entry"),
    }
    assert!(alpha(&c, &es, n) == p2, "post-position differs from the model");

    mem::forget(c);
    BlockFacts { n, p, qr, qlen, r0: ranks[0], r1: ranks[1], r2: ranks[2], k0len: es[0].klen, ext: qlen == 3 && qb[0] == es[1].k[0] && es[1].klen == 2 && qb[1] == es[1].k[1] }
}

macro_rules! block_op_harness {
    ($name:ident, $op:expr, $interval:expr) => {
        #[kani::proof]
        #[kani::unwind(10)]
        fn $name() {
            block_op_check($op, $interval, 3, 3);
        }
    };
}

macro_rules! block_op_harness_small {
    ($name:ident, $op:expr, $interval:expr) => {
        #[kani::proof]
        #[kani::unwind(10)]
        fn $name() {
            block_op_check($op, $interval, 0, 2);
        }
    };
}
block_op_harness_small!(c02_block_ge_i1_small, OP_GE, 1);
block_op_harness_small!(c02_block_le_i1_small, OP_LE, 1);
block_op_harness_small!(c02_block_ge_i2_small, OP_GE, 2);
block_op_harness_small!(c02_block_le_i2_small, OP_LE, 2);
block_op_harness_small!(c03_block_next_i1_small, OP_NEXT, 1);
block_op_harness_small!(c03_block_prev_i1_small, OP_PREV, 1);
block_op_harness_small!(c03_block_first_i1_small, OP_FIRST, 1);
block_op_harness_small!(c03_block_last_i1_small, OP_LAST, 1);

block_op_harness!(c03_block_current_i2, OP_CURRENT, 2);
block_op_harness!(c03_block_first_i1, OP_FIRST, 1);
block_op_harness!(c03_block_first_i2, OP_FIRST, 2);
block_op_harness!(c03_block_first_i8, OP_FIRST, 8);
block_op_harness!(c03_block_last_i1, OP_LAST, 1);
block_op_harness!(c03_block_last_i2, OP_LAST, 2);
block_op_harness!(c03_block_last_i8, OP_LAST, 8);
block_op_harness!(c03_block_next_i1, OP_NEXT, 1);
block_op_harness!(c03_block_next_i2, OP_NEXT, 2);
block_op_harness!(c03_block_next_i8, OP_NEXT, 8);
block_op_harness!(c03_block_prev_i1, OP_PREV, 1);
block_op_harness!(c03_block_prev_i2, OP_PREV, 2);
block_op_harness!(c03_block_prev_i8, OP_PREV, 8);
block_op_harness!(c02_block_ge_i1, OP_GE, 1);
block_op_harness!(c02_block_ge_i2, OP_GE, 2);
block_op_harness!(c02_block_ge_i8, OP_GE, 8);
block_op_harness!(c02_block_le_i1, OP_LE, 1);
block_op_harness!(c02_block_le_i2, OP_LE, 2);
block_op_harness!(c02_block_le_i8, OP_LE, 8);

/// ac_block_new ⊑ Block::new: loading `len ‖ block` through &[u8] (real decompress(None), std read_to_end,
/// footer parsing) yields buffer = body, payload_size = sum of framed entries, index_offsets = the offsets
/// of entries 0, interval, 2*interval, ...; entry_at(i-th offset) returns entry i and the next offset.
fn block_new_check(interval: usize) {
    block_new_check_cfg(interval, None, [0; MAXN], [0; MAXN])
}

/// nfix = Some(n): entry count and all lengths concrete (contents symbolic), so the block length is concrete:
/// std's read_to_end over a symbolic-length source is out of the solver's reach (>20 GB).
fn block_new_check_cfg(interval: usize, nfix: Option<usize>, klens: [usize; MAXN], vlens: [usize; MAXN]) {
    let n: usize = match nfix {
        Some(n) => n,
        None => kani::any(),
    };
    kani::assume(n <= MAXN);
    let mut es = any_sorted(n);
    if nfix.is_some() {
        let mut i = 0;
        while i < MAXN {
            kani::assume(es[i].klen == klens[i] && es[i].vlen == vlens[i]);
            es[i].klen = klens[i];
            es[i].vlen = vlens[i];
            i += 1;
        }
    }
    let r = ref_block(&es, n, interval);
    // `len ‖ block` in one fixed array, read through &[u8]
    let mut file = [0u8; 8 + MAXBLOCK];
    let lp = (r.len as u64).to_be_bytes();
    file[..8].copy_from_slice(&lp);
    file[8..].copy_from_slice(&r.bytes);
    let mut src: &[u8] = &file[..8 + r.len];
    let block = match Block::new(&mut src, CompressionType::None) {
        Ok(b) => b,
        Err(e) => {
            mem::forget(e);
            panic!("Block::new failed on a well-formed block");
        }
    };
    assert!(src.is_empty(), "Block::new must consume exactly the length prefix and the block");
    let payload = entry_offset(&es, n);
    assert!(block.payload_size == payload);
    assert!(block.payload().len() == payload);
    let expect_offsets = if n == 0 { 1 } else { (n - 1) / interval + 1 };
    assert!(block.index_offsets.len() == expect_offsets);
    assert!(block.buffer.len() == payload + 8 * expect_offsets + 4);
    let mut j = 0;
    while j < MAXN {
        if j < expect_offsets {
            assert!(block.index_offsets[j] as usize == entry_offset(&es, j * interval));
        }
        j += 1;
    }
    let mut i = 0;
    while i < MAXN {
        if i < n {
            match block.entry_at(entry_offset(&es, i)) {
                Some((k, v, next)) => {
                    assert!(same(k, es[i].key()));
                    assert!(same(v, es[i].val()));
                    assert!(next == entry_offset(&es, i + 1));
                }
                None => panic!("entry_at lost an entry"),
            }
        }
        i += 1;
    }
    assert!(block.entry_at(payload).is_none());
    kani::cover!(n == 0 || nfix.is_some());
    kani::cover!((n == MAXN && es[0].klen == 0 && es[2].vlen == 2) || nfix.is_some());
    mem::forget(block);
}

macro_rules! block_new_fixed {
    ($name:ident, $interval:expr, $n:expr, $kl:expr, $vl:expr) => {
        #[kani::proof]
        #[kani::unwind(10)]
        fn $name() {
            block_new_check_cfg($interval, Some($n), $kl, $vl);
        }
    };
}

#[kani::proof]
#[kani::unwind(10)]
fn c01_block_new_i1() {
    block_new_check(1);
}
#[kani::proof]
#[kani::unwind(10)]
fn c01_block_new_i2() {
    block_new_check(2);
}
#[kani::proof]
#[kani::unwind(10)]
fn c01_block_new_i8() {
    block_new_check(8);
}

/// C17 (read side): every slice handed out by a BlockCursor move, including the 'static transmute in the
/// >=-seek, is read after the call and lies inside the live block buffer (Kani pointer checks).
#[kani::proof]
#[kani::unwind(10)]
fn c17_block_borrows() {
    let n: usize = kani::any();
    kani::assume(n >= 1 && n <= MAXN);
    let es = any_sorted(n);
    let block = ref_typed_block(&es, n, 2);
    let mut c = block.into_cursor();
    let qlen: usize = kani::any();
    kani::assume(qlen <= 3);
    let qb: [u8; 3] = kani::any();
    let mut sum = 0u32;
    if let Some((k, v)) = c.move_on_key_greater_than_or_equal_to(&qb[..qlen]) {
        for b in k {
            sum += *b as u32;
        }
        for b in v {
            sum += *b as u32;
        }
        kani::cover!(k.len() == 2 && v.len() == 2);
    }
    assert!(sum <= 4 * 255);
    mem::forget(c);
}


macro_rules! block_op_fixed {
    ($name:ident, $op:expr, $interval:expr, $n:expr, $kl:expr, $vl:expr) => {
        #[kani::proof]
        #[kani::unwind(10)]
        fn $name() {
            let f = block_op_check_full($op, $interval, $n, $n, None, true, Some(($kl, $vl)));
            covers_basic(&f, $n);
        }
    };
}
/// C14 framing across the 2^7 boundary: one entry whose value is L bytes (L concrete 127 / 128 / 129, contents symbolic) written by
/// the real BlockWriter and read back by the real Block::entry_at: lengths, first/last value bytes and the next offset are exact
/// (two-byte varint from 128 on).
fn frame_check(vlen: usize) {
    let key: [u8; 1] = kani::any();
    let val: [u8; 130] = kani::any();
    let mut bw = BlockWriter::new();
    bw.insert(&key[..], &val[..vlen]);
    let (buffer, index_offsets, payload_size) = crate::block_writer::verif_h::finish_parts(bw);
    let vl_bytes = if vlen < 128 { 1 } else { 2 };
    assert!(payload_size == 1 + vl_bytes + 1 + vlen, "C14: framed size");
    let block = Block { compression_type: CompressionType::None, buffer, payload_size, index_offsets };
    match block.entry_at(0) {
        Some((k, v, next)) => {
            assert!(k.len() == 1 && k[0] == key[0], "C14: key altered by the framing");
            assert!(v.len() == vlen, "C14: value length altered by the framing");
            assert!(v[0] == val[0] && v[vlen - 1] == val[vlen - 1], "C14: value bytes altered by the framing");
            let p: usize = kani::any();
            kani::assume(p < vlen);
            assert!(v[p] == val[p], "C14: value bytes altered by the framing");
            assert!(next == payload_size, "C14: the entry must consume exactly its framing");
        }
        None => panic!("C14: entry lost"),
    }
    assert!(block.entry_at(payload_size).is_none());
    kani::cover!(true);
    mem::forget(block);
}
#[kani::proof]
#[kani::unwind(10)]
fn c14_frame_127() {
    frame_check(127);
}
#[kani::proof]
#[kani::unwind(10)]
fn c14_frame_128() {
    frame_check(128);
}
#[kani::proof]
#[kani::unwind(10)]
fn c14_frame_129() {
    frame_check(129);
}

include!("block_gen.rs");
