// Child module of crate::block_writer: sees BlockWriter's private fields.
#![allow(dead_code)]
use super::*;

/// Finish the block and hand out its parts without copying: (whole buffer incl. footer, offset table, payload length).
pub(crate) fn finish_parts(mut bw: BlockWriter) -> (Vec<u8>, Vec<u64>, usize) {
    let payload = bw.buffer.len();
    let offsets = bw.index_offsets.clone();
    {
        let buf = bw.finish();
        std::mem::forget(buf); // do not reset: we take the buffer
    }
    let buffer = std::mem::take(&mut bw.buffer);
    std::mem::forget(bw);
    (buffer, offsets, payload)
}
