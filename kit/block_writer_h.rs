// Child module of crate::block_writer: sees BlockWriter's private fields.
#![allow(dead_code)]
use std::num::NonZeroUsize;

use super::*;

/// Finish the block and hand out its parts without copying: (whole buffer incl. footer, offset table, payload length).
pub(crate) fn finish_parts(mut bw: BlockWriter) -> (Vec<u8>, Vec<u64>, usize) {
    let payload = bw.buffer.len();
    let offsets = bw.index_offsets.clone();
    {
        let buf = bw.finish();
        std::mem::forget(buf); // do not reset: we take the buffer
    }
    let buffer = std::mem::take(&mut bw.buffer);
    std::mem::forget(bw);
    (buffer, offsets, payload)
}

// ------------------------------------------------------------------------------------------------ abstract block writers
// L1 runs the real Writer::insert / into_inner over ABSTRACT block writers (the real Writer over real BlockWriters
// exceeds 20 GB from two index levels or two inserts on). An abstract writer owns no heap: its id is kept in
// `index_key_counter`, its entries in static tables. insert / current_size_estimate / last_key are replaced
// (kani::stub) by the models below; the real BlockWriter is proved equal to this model by the unit harnesses
// c09_block_ref_* / c15_estimate_* / c18_block_order_* in this file.
pub(crate) const AW: usize = 6; // writers: 0 = data, 1 = root index, ...
pub(crate) const AE: usize = 4; // entries per block
pub(crate) static mut AB_N: [usize; AW] = [0x5EED_0201; AW];
pub(crate) static mut AB_PAYLOAD: [usize; AW] = [0x5EED_0202; AW];
pub(crate) static mut AB_KLEN: [[usize; AE]; AW] = [[0x5EED_0203; AE]; AW];
pub(crate) static mut AB_K: [[[u8; 2]; AE]; AW] = [[[0xB1; 2]; AE]; AW];
pub(crate) static mut AB_VLEN: [[usize; AE]; AW] = [[0x5EED_0204; AE]; AW];
pub(crate) static mut AB_V: [[[u8; 8]; AE]; AW] = [[[0xB2; 8]; AE]; AW];
pub(crate) static mut AB_INSERTS: usize = 0x5EED_0205;

pub(crate) fn abs_reset_all() {
    unsafe {
        AB_N = [0; AW];
        AB_PAYLOAD = [0; AW];
        AB_INSERTS = 0;
    }
}

pub(crate) fn abs_writer(id: usize, interval: usize) -> BlockWriter {
    // built through the real builder (robust against representation changes of the other fields); only the id is poked in
    let mut b = BlockWriter::builder();
    b.index_key_interval(NonZeroUsize::new(interval).unwrap());
    let mut w = b.build();
    w.index_key_counter = id;
    w
}

pub(crate) fn abs_id(bw: &BlockWriter) -> usize {
    bw.index_key_counter
}

fn lex_gt(a: &[u8], b: &[u8]) -> bool {
    // a > b for byte strings of length <= 2
    let mut i = 0;
    while i < 2 {
        if i >= a.len() {
            return false;
        }
        if i >= b.len() {
            return true;
        }
        if a[i] != b[i] {
            return a[i] > b[i];
        }
        i += 1;
    }
    a.len() > b.len()
}

/// model of BlockWriter::insert (same strict-order panic as the real one)
pub(crate) fn abs_insert(bw: &mut BlockWriter, key: &[u8], val: &[u8]) {
    let id = bw.index_key_counter;
    unsafe {
        let n = AB_N[id];
        assert!(n < AE, "abstract block writer is full (harness bound)");
        assert!(key.len() <= 2 && val.len() <= 8, "abstract block writer entry bound");
        if n > 0 {
            let lk = &AB_K[id][n - 1][..AB_KLEN[id][n - 1]];
            assert!(lex_gt(key, lk), "key must be greater than the last key of the block");
        }
        AB_KLEN[id][n] = key.len();
        AB_VLEN[id][n] = val.len();
        let mut j = 0;
        while j < 2 {
            if j < key.len() {
                AB_K[id][n][j] = key[j];
            }
            j += 1;
        }
        let mut j = 0;
        while j < 8 {
            if j < val.len() {
                AB_V[id][n][j] = val[j];
            }
            j += 1;
        }
        AB_PAYLOAD[id] += 2 + key.len() + val.len();
        AB_N[id] = n + 1;
        AB_INSERTS += 1;
    }
}

pub(crate) fn abs_offsets(n: usize, interval: usize) -> usize {
    if n == 0 {
        1
    } else {
        (n - 1) / interval + 1
    }
}

/// model of BlockWriter::current_size_estimate
pub(crate) fn abs_size(bw: &BlockWriter) -> usize {
    let id = bw.index_key_counter;
    unsafe { AB_PAYLOAD[id] + 8 * abs_offsets(AB_N[id], bw.index_key_interval.get()) + 4 }
}

/// model of BlockWriter::last_key
pub(crate) fn abs_last_key(bw: &BlockWriter) -> Option<&[u8]> {
    let id = bw.index_key_counter;
    unsafe {
        let n = AB_N[id];
        if n == 0 {
            None
        } else {
            Some(&AB_K[id][n - 1][..AB_KLEN[id][n - 1]])
        }
    }
}

pub(crate) fn abs_clear(id: usize) {
    unsafe {
        AB_N[id] = 0;
        AB_PAYLOAD[id] = 0;
    }
}

// ------------------------------------------------------------------------------------------------ real BlockWriter units
#[derive(Clone, Copy)]
struct BEnt {
    klen: usize,
    k: [u8; 2],
    vlen: usize,
    v: [u8; 8],
}

/// real BlockWriter == abstract model == reference encoding, for concrete lengths and symbolic contents:
/// size estimate after every insert, last_key, the finished bytes (framing, offset table, count) and reuse after
/// finish (the writer is reset: a second block built with the same writer is encoded like a fresh one).
fn block_ref_check(n: usize, kl: [usize; 3], vl: [usize; 3], interval: usize, second_n: usize) {
    let mut b = BlockWriter::builder();
    b.index_key_interval(NonZeroUsize::new(interval).unwrap());
    let mut bw = b.build();
    let mut round = 0;
    while round < 2 {
        let cnt = if round == 0 { n } else { second_n };
        let mut es = [BEnt { klen: 0, k: [0; 2], vlen: 0, v: [0; 8] }; 3];
        let mut i = 0;
        while i < 3 {
            es[i] = BEnt { klen: kl[i], k: kani::any(), vlen: vl[i], v: kani::any() };
            if i > 0 && i < cnt {
                kani::assume(lex_gt(&es[i].k[..kl[i]], &es[i - 1].k[..kl[i - 1]]));
            }
            i += 1;
        }
        assert!(bw.last_key().is_none(), "a fresh / reset writer has no last key");
        assert!(bw.current_size_estimate() == 12, "empty block: one offset + count");
        let mut payload = 0;
        let mut i = 0;
        while i < 3 {
            if i < cnt {
                bw.insert(&es[i].k[..kl[i]], &es[i].v[..vl[i]]);
                payload += 2 + kl[i] + vl[i];
                assert!(bw.current_size_estimate() == payload + 8 * abs_offsets(i + 1, interval) + 4, "C15: size estimate");
                match bw.last_key() {
                    Some(k) => assert!(k.len() == kl[i] && (kl[i] < 1 || k[0] == es[i].k[0]) && (kl[i] < 2 || k[1] == es[i].k[1])),
                    None => panic!("last_key lost"),
                }
            }
            i += 1;
        }
        let estimate = bw.current_size_estimate();
        {
            let buf = bw.finish();
            let bytes: &[u8] = buf.as_ref();
            assert!(bytes.len() == estimate, "C15: the estimate is the exact size of the finished block");
            // reference encoding, compared at one symbolic position (the solver quantifies over it)
            let p: usize = kani::any();
            kani::assume(p < bytes.len());
            let mut pos = 0;
            let mut offs = [0u64; 3];
            let mut noffs = 1;
            let mut i = 0;
            while i < 3 {
                if i < cnt {
                    if i > 0 && i % interval == 0 {
                        offs[noffs] = pos as u64;
                        noffs += 1;
                    }
                    if p == pos {
                        assert!(bytes[p] == kl[i] as u8, "C09: key length varint");
                    }
                    if p == pos + 1 {
                        assert!(bytes[p] == vl[i] as u8, "C09: value length varint");
                    }
                    if p >= pos + 2 && p < pos + 2 + kl[i] {
                        assert!(bytes[p] == es[i].k[p - pos - 2], "C09: key bytes");
                    }
                    if p >= pos + 2 + kl[i] && p < pos + 2 + kl[i] + vl[i] {
                        assert!(bytes[p] == es[i].v[p - pos - 2 - kl[i]], "C09: value bytes");
                    }
                    pos += 2 + kl[i] + vl[i];
                }
                i += 1;
            }
            assert!(noffs == abs_offsets(cnt, interval));
            let mut t = 0;
            while t < 3 {
                if t < noffs {
                    let be = offs[t].to_be_bytes();
                    if p >= pos && p < pos + 8 {
                        assert!(bytes[p] == be[p - pos], "C09: offset table entry (u64 BE, first 0, one per interval)");
                    }
                    pos += 8;
                }
                t += 1;
            }
            let c = (noffs as u32).to_be_bytes();
            if p >= pos {
                assert!(p < pos + 4 && bytes[p] == c[p - pos], "C09: offset count (u32 BE)");
            }
            assert!(pos + 4 == bytes.len());
            kani::cover!(p == 0 && cnt > 0);
            kani::cover!(p + 1 == bytes.len());
        } // BlockBuffer dropped: reset()
        round += 1;
    }
    std::mem::forget(bw);
}

// ------------------------------------------------------------------------------------------------ grenad 0.4.7
#[path = "g047/mod.rs"]
pub(crate) mod g047;

/// C09 differential: the current BlockWriter and the frozen 0.4.7 BlockWriter emit identical bytes for the same entries.
fn d047_block_check(n: usize, kl: [usize; 3], vl: [usize; 3], interval: usize) {
    assert!(g047::AVAILABLE, "grenad 0.4.7 sources not found in the cargo registry");
    // (entries as an array of structs: slices of a local `[[u8; 2]; 3]` obtained from kani::any() do not alias the
    //  array they are taken from under Kani 0.68 - observed, see DESIGN.md §9.3)
    let mut es = [BEnt { klen: 0, k: [0; 2], vlen: 0, v: [0; 8] }; 3];
    let mut i = 0;
    while i < 3 {
        es[i] = BEnt { klen: kl[i], k: kani::any(), vlen: vl[i], v: kani::any() };
        if i > 0 && i < n {
            kani::assume(lex_gt(&es[i].k[..kl[i]], &es[i - 1].k[..kl[i - 1]]));
        }
        i += 1;
    }
    let mut nb = BlockWriter::builder();
    nb.index_key_interval(NonZeroUsize::new(interval).unwrap());
    let mut new = nb.build();
    let mut ob = g047::block_writer::BlockWriter::builder();
    ob.index_key_interval(NonZeroUsize::new(interval).unwrap());
    let mut old = ob.build();
    let mut i = 0;
    while i < 3 {
        if i < n {
            new.insert(&es[i].k[..kl[i]], &es[i].v[..vl[i]]);
            old.insert(&es[i].k[..kl[i]], &es[i].v[..vl[i]]);
            assert!(new.current_size_estimate() == old.current_size_estimate());
        }
        i += 1;
    }
    {
        let nbuf = new.finish();
        let obuf = old.finish();
        let (a, b): (&[u8], &[u8]) = (nbuf.as_ref(), obuf.as_ref());
        assert!(a.len() == b.len(), "C09: block length differs from grenad 0.4.7");
        let p: usize = kani::any();
        kani::assume(p < a.len());
        assert!(a[p] == b[p], "C09: block bytes differ from grenad 0.4.7");
        kani::cover!(p + 1 == a.len());
        kani::cover!(p == 0);
    }
    std::mem::forget(new);
    std::mem::forget(old);
}

/// C09 differential: trailer bytes and trailer parsing agree with grenad 0.4.7 in both directions (V2 and V1).
#[kani::proof]
#[kani::unwind(24)]
fn c09_d047_trailer() {
    use crate::metadata as cur;
    use g047::metadata as old;
    let offset: u64 = kani::any();
    let count: u64 = kani::any();
    let levels: u8 = kani::any();
    let codec: u8 = kani::any();
    kani::assume(codec <= 5);
    let v2: bool = kani::any();
    let ct = match crate::compression::CompressionType::from_u8(codec) {
        Some(c) => c,
        None => return,
    };
    let mc = cur::Metadata {
        file_version: if v2 { cur::FileVersion::FormatV2 } else { cur::FileVersion::FormatV1 },
        index_block_offset: offset,
        compression_type: ct,
        entries_count: count,
        index_levels: if v2 { levels } else { 0 },
    };
    let mo = old::Metadata {
        file_version: if v2 { old::FileVersion::FormatV2 } else { old::FileVersion::FormatV1 },
        index_block_offset: offset,
        compression_type: ct,
        entries_count: count,
        index_levels: if v2 { levels } else { 0 },
    };
    let mut a = [0u8; 22];
    let mut b = [0u8; 22];
    let na = {
        let mut s: &mut [u8] = &mut a[..];
        match mc.write_into(&mut s) {
            Ok(n) => n,
            Err(e) => {
                std::mem::forget(e);
                return;
            }
        }
    };
    let nb = {
        let mut s: &mut [u8] = &mut b[..];
        match mo.write_into(&mut s) {
            Ok(n) => n,
            Err(e) => {
                std::mem::forget(e);
                return;
            }
        }
    };
    assert!(na == nb && a == b, "C09: trailer bytes differ from grenad 0.4.7");
    // each version parses the other's trailer to the same fields
    match old::Metadata::read_from(std::io::Cursor::new(&a[..na])) {
        Ok(m) => assert!(m.index_block_offset == offset && m.entries_count == count && m.index_levels == mc.index_levels && m.compression_type == ct),
        Err(e) => {
            std::mem::forget(e);
            panic!("C09: grenad 0.4.7 rejects the current writer's trailer");
        }
    }
    match cur::Metadata::read_from(std::io::Cursor::new(&b[..nb])) {
        Ok(m) => assert!(m.index_block_offset == offset && m.entries_count == count && m.index_levels == mo.index_levels && m.compression_type == ct),
        Err(e) => {
            std::mem::forget(e);
            panic!("C09: the current reader rejects grenad 0.4.7's trailer");
        }
    }
    kani::cover!(v2 && levels == 255);
    kani::cover!(!v2 && codec == 5);
}

include!("block_writer_gen.rs");

/// C18: the second insert panics iff its key is not strictly greater than the first (lengths symbolic 0..=2).
fn order_check(expect_panic: bool) {
    let k1: [u8; 2] = kani::any();
    let k2: [u8; 2] = kani::any();
    let (l1, l2): (usize, usize) = (kani::any(), kani::any());
    kani::assume(l1 <= 2 && l2 <= 2);
    let gt = lex_gt(&k2[..l2], &k1[..l1]);
    kani::assume(gt != expect_panic);
    let mut bw = BlockWriter::new();
    bw.insert(&k1[..l1], &[]);
    bw.insert(&k2[..l2], &[1]);
    // reached only when no panic happened: in the should_panic harness this witness must be UNREACHABLE
    kani::cover!(true);
    if !expect_panic {
        match bw.last_key() {
            Some(k) => assert!(k.len() == l2),
            None => panic!("last_key lost"),
        }
        kani::cover!(l1 == 0 && l2 == 1);
        kani::cover!(l1 == 1 && l2 == 2 && k1[0] == k2[0]);
    }
    std::mem::forget(bw);
}

#[kani::proof]
#[kani::unwind(10)]
#[kani::should_panic]
fn c18_block_order_panics() {
    order_check(true);
}

#[kani::proof]
#[kani::unwind(10)]
fn c18_block_order_accepts() {
    order_check(false);
}

/// C18: after finish (reset) any key is accepted again, including a smaller one.
#[kani::proof]
#[kani::unwind(10)]
fn c18_block_order_after_reset() {
    let k1: [u8; 2] = kani::any();
    let k2: [u8; 2] = kani::any();
    let mut bw = BlockWriter::new();
    bw.insert(&k1[..], &[]);
    {
        let _buf = bw.finish();
    }
    bw.insert(&k2[..1], &[]);
    bw.reset();
    bw.insert(&k1[..0], &[]);
    assert!(bw.current_size_estimate() == 2 + 12);
    kani::cover!(k2[0] < k1[0]);
    std::mem::forget(bw);
}

