// C06: merger kernels over abstract blocks. Child module of crate::merger (sees Entry, MergerIter's fields).
#![allow(dead_code)]
use std::borrow::Cow;
use std::cmp::Ordering;
use std::mem;

use super::*;
use crate::block::verif_ac::*;
use crate::metadata::FileVersion;
use crate::reader::verif_cursor::{glue_harness, open, Cur, Layout};

/// One single-data-block file over entries [first, first + n) (levels 0).
fn one_block_file(first: usize, n: usize) -> Layout {
    let d = data_block(first, n);
    let root = index_block(&[d, 0, 0, 0], 1);
    Layout { id: 0xFE, root, levels: 0, n }
}

fn positioned(l: &Layout, pos_in_block: usize) -> Cur {
    // a cursor positioned on entry `pos_in_block` of the file's only data block (RI-strong built by hand)
    let mut c = open(l, FileVersion::FormatV2);
    match c.move_on_first() {
        Ok(_) => {}
        Err(e) => mem::forget(e),
    }
    let mut j = 0;
    while j < 2 {
        if j < pos_in_block {
            match c.move_on_next() {
                Ok(_) => {}
                Err(e) => mem::forget(e),
            }
        }
        j += 1;
    }
    c
}

glue_harness!(c06_entry_order, 10, {
    // three sources positioned on symbolic keys (any overlap): Ord for Entry is the reverse of (key, source_index)
    reset_tables();
    let mut ls = [Layout { id: 0, root: 0, levels: 0, n: 0 }; 3];
    let mut s = 0;
    while s < 3 {
        let e = add_entries(1, 0, 2);
        ls[s] = one_block_file(e, 1);
        s += 1;
    }
    let idx: [usize; 3] = kani::any();
    kani::assume(idx[0] < 8 && idx[1] < 8 && idx[2] < 8);
    let ea = Entry { cursor: positioned(&ls[0], 0), source_index: idx[0] };
    let eb = Entry { cursor: positioned(&ls[1], 0), source_index: idx[1] };
    let ec = Entry { cursor: positioned(&ls[2], 0), source_index: idx[2] };
    let (ra, rb, rc) = (rank(key_of(0)), rank(key_of(1)), rank(key_of(2)));
    let spec = |r1: u32, i1: usize, r2: u32, i2: usize| -> Ordering {
        // reverse of lexicographic (key, source index)
        if r1 != r2 {
            if r1 < r2 { Ordering::Greater } else { Ordering::Less }
        } else if i1 != i2 {
            if i1 < i2 { Ordering::Greater } else { Ordering::Less }
        } else {
            Ordering::Equal
        }
    };
    assert!(ea.cmp(&eb) == spec(ra, idx[0], rb, idx[1]), "C06: heap order is not the reverse of (key, source index)");
    assert!(eb.cmp(&ec) == spec(rb, idx[1], rc, idx[2]));
    assert!(ea.cmp(&ec) == spec(ra, idx[0], rc, idx[2]));
    assert!(ea.partial_cmp(&eb) == Some(ea.cmp(&eb)));
    assert!((ea == eb) == (ea.cmp(&eb) == Ordering::Equal));
    kani::cover!(ra == rb && idx[0] < idx[1]);
    kani::cover!(ra == rb && idx[0] > idx[1]);
    kani::cover!(ra < rb && idx[0] > idx[1]);
    mem::forget(ea);
    mem::forget(eb);
    mem::forget(ec);
});

// ---- recording merge function
pub(crate) static mut MLOG_CALLS: usize = 0x5EED_0401;
pub(crate) static mut MLOG_KEY: [u32; 6] = [0x5EED_0402; 6];
pub(crate) static mut MLOG_ARITY: [usize; 6] = [0x5EED_0403; 6];
pub(crate) static mut MLOG_TAGS: [[u8; 3]; 6] = [[0xC1; 3]; 6];

struct RecMerge;
impl MergeFunction for RecMerge {
    type Error = u8;
    fn merge<'a>(&self, key: &[u8], values: &[Cow<'a, [u8]>]) -> Result<Cow<'a, [u8]>, u8> {
        unsafe {
            let c = MLOG_CALLS;
            MLOG_KEY[c] = rank(key);
            MLOG_ARITY[c] = values.len();
            let mut j = 0;
            while j < 3 {
                if j < values.len() {
                    MLOG_TAGS[c][j] = values[j][0];
                }
                j += 1;
            }
            MLOG_CALLS = c + 1;
        }
        // returns the first value (a lone value unchanged), borrowed
        Ok(values[0].clone())
    }
}

/// k = 2 sources, each one data block of `na` / `nb` entries (concrete), keys symbolic with any overlap.
pub(crate) fn merge2(na: usize, nb: usize) -> usize {
    reset_tables();
    unsafe {
        MLOG_CALLS = 0;
    }
    let ea = add_entries(na, 1, 1);
    let la = one_block_file(ea, na);
    let eb = add_entries(nb, 1, 1);
    let lb = one_block_file(eb, nb);
    let mut builder = MergerBuilder::new(RecMerge);
    builder.push(open(&la, FileVersion::FormatV2));
    builder.push(open(&lb, FileVersion::FormatV2));
    let merger = builder.build();
    let mut it = match merger.into_stream_merger_iter() {
        Ok(it) => it,
        Err(e) => {
            mem::forget(e);
            panic!("into_stream_merger_iter failed without a fault");
        }
    };
    // expected: union of the two sorted runs; for a shared key the tags in source order (A then B)
    let mut ia = 0;
    let mut ib = 0;
    let mut yielded = 0;
    let mut step = 0;
    while step < 5 {
        if step <= na + nb {
            let ra = if ia < na { Some(rank(key_of(ea + ia))) } else { None };
            let rb = if ib < nb { Some(rank(key_of(eb + ib))) } else { None };
            let exp: Option<(u32, bool, bool)> = match (ra, rb) {
                (None, None) => None,
                (Some(a), None) => Some((a, true, false)),
                (None, Some(b)) => Some((b, false, true)),
                (Some(a), Some(b)) => {
                    if a < b {
                        Some((a, true, false))
                    } else if b < a {
                        Some((b, false, true))
                    } else {
                        Some((a, true, true))
                    }
                }
            };
            let calls_before = unsafe { MLOG_CALLS };
            match it.next() {
                Ok(Some((k, v))) => match exp {
                    Some((r, ta, tb)) => {
                        assert!(rank(k) == r, "C06: merged keys are not the ascending union of the sources' keys");
                        let first_tag = if ta { VAL_TAG + (ea + ia) as u8 } else { VAL_TAG + (eb + ib) as u8 };
                        assert!(v.len() == 1 && v[0] == first_tag, "C06: yielded value is not what the merge function returned");
                        unsafe {
                            assert!(MLOG_CALLS == calls_before + 1, "C06: the merge function is applied exactly once per key");
                            assert!(MLOG_KEY[calls_before] == r);
                            assert!(MLOG_ARITY[calls_before] == ta as usize + tb as usize, "C06: a key's values are those of exactly its holders");
                            assert!(MLOG_TAGS[calls_before][0] == first_tag, "C06: values are ordered by the position at which their sources were added");
                            if ta && tb {
                                assert!(MLOG_TAGS[calls_before][1] == VAL_TAG + (eb + ib) as u8);
                            }
                        }
                        if ta {
                            ia += 1;
                        }
                        if tb {
                            ib += 1;
                        }
                        yielded += 1;
                    }
                    None => panic!("C06: the merger yielded an entry after the union was exhausted"),
                },
                Ok(None) => {
                    assert!(exp.is_none(), "C06: the merger stopped before the union was exhausted");
                    break;
                }
                Err(e) => {
                    mem::forget(e);
                    panic!("merger failed without a fault");
                }
            }
        }
        step += 1;
    }
    mem::forget(it);
    yielded
}

glue_harness!(c06_merge2_1_1, 10, {
    let y = merge2(1, 1);
    kani::cover!(y == 1);
    kani::cover!(y == 2);
});
glue_harness!(c06_merge2_2_1, 10, {
    let y = merge2(2, 1);
    kani::cover!(y == 2);
    kani::cover!(y == 3);
});
glue_harness!(c06_merge2_0_2, 10, {
    let y = merge2(0, 2);
    kani::cover!(y == 2);
});

/// k = 1 source with two entries whose values have different lengths (2 then 1 bytes are modelled by tags of length 1,
/// so the shrinking case is exercised through `merged_value` reuse with a merge function returning Cow::Borrowed).
glue_harness!(c06_merge1_2, 10, {
    reset_tables();
    unsafe {
        MLOG_CALLS = 0;
    }
    let ea = add_entries(2, 1, 1);
    let la = one_block_file(ea, 2);
    let mut builder = MergerBuilder::new(RecMerge);
    builder.push(open(&la, FileVersion::FormatV2));
    let mut it = match builder.build().into_stream_merger_iter() {
        Ok(it) => it,
        Err(e) => {
            mem::forget(e);
            panic!("x");
        }
    };
    let mut i = 0;
    while i < 2 {
        match it.next() {
            Ok(Some((k, v))) => {
                assert!(rank(k) == rank(key_of(ea + i)));
                assert!(v.len() == 1 && v[0] == VAL_TAG + (ea + i) as u8, "C06: a lone value is yielded unchanged");
            }
            _ => panic!("C06: entry lost"),
        }
        i += 1;
    }
    match it.next() {
        Ok(None) => {}
        _ => panic!("C06: extra entry"),
    }
    kani::cover!(true);
    mem::forget(it);
});
