// Trailer kernels (C13, C10, C01 trailer round trip, C09 trailer bytes, C16 open I/O).
// Child module of crate::metadata: sees Metadata, read_from, write_into, the private constants.
use std::io::{self, Cursor, Read, Seek, SeekFrom};
use std::mem;

use super::*;
use crate::Reader;

const N: usize = 48;

fn le64(b: &[u8; N], at: usize) -> u64 {
    let mut v = 0u64;
    let mut i = 0;
    while i < 8 {
        v |= (b[at + i] as u64) << (8 * i);
        i += 1;
    }
    v
}

/// The acceptance predicate of C13 written over the raw bytes, and the fields a valid trailer carries.
/// Returns (version, root offset, codec id, count, levels).
fn spec_trailer(b: &[u8; N], len: usize) -> Option<(FileVersion, u64, u8, u64, u8)> {
    if len < 4 {
        return None;
    }
    let m = [b[len - 4], b[len - 3], b[len - 2], b[len - 1]];
    if m == [0xC4, 0xD4, 0x23, 0x67] {
        if len < 22 || b[len - 14] > 5 {
            return None;
        }
        Some((FileVersion::FormatV2, le64(b, len - 22), b[len - 14], le64(b, len - 13), b[len - 5]))
    } else if m == [0x4C, 0x4D, 0x32, 0x76] {
        if len < 21 || b[len - 13] > 5 {
            return None;
        }
        Some((FileVersion::FormatV1, le64(b, len - 21), b[len - 13], le64(b, len - 12), 0))
    } else {
        None
    }
}

fn check_open(bytes: &[u8; N], len: usize) {
    let spec = spec_trailer(bytes, len);
    match Reader::new(Cursor::new(&bytes[..len])) {
        Ok(reader) => {
            match spec {
                Some((version, offset, codec, count, levels)) => {
                    assert!(reader.file_version() == version);
                    assert!(reader.len() == count);
                    assert!(reader.compression_type() as u8 == codec);
                    assert!(reader.index_block_offset() == offset);
                    assert!(reader.index_levels() == levels);
                    assert!(reader.is_empty() == (count == 0));
                }
                None => panic!("C13: opened a byte string that does not end in a valid trailer"),
            }
            mem::forget(reader);
        }
        Err(e) => {
            assert!(spec.is_none(), "C13: rejected a byte string ending in a valid trailer");
            mem::forget(e);
        }
    }
}

/// C13: every byte string of length 0..=48.
#[kani::proof]
#[kani::unwind(10)]
fn c13_open() {
    let bytes: [u8; N] = kani::any();
    let len: usize = kani::any();
    kani::assume(len <= N);
    check_open(&bytes, len);
    let spec = spec_trailer(&bytes, len);
    kani::cover!(len == 0);
    kani::cover!(len == 3);
    kani::cover!(len == 21 && spec.is_some());
    kani::cover!(len == 21 && spec.is_none() && bytes[20] == 0x67);
    kani::cover!(len == 22 && spec.is_some());
    kani::cover!(len == N && spec.is_some());
    kani::cover!(len >= 22 && bytes[len - 1] == 0x67 && bytes[len - 14] == 6);
    kani::cover!(len >= 22 && bytes[len - 1] == 0x76 && spec.is_some());
}

/// C10: every byte string of length 21..=48 whose tail is a V1 trailer with a known codec opens as
/// FormatV1 with the fields taken from exactly the V1 positions and zero index levels.
#[kani::proof]
#[kani::unwind(10)]
fn c10_v1_trailer() {
    let bytes: [u8; N] = kani::any();
    let len: usize = kani::any();
    kani::assume(len >= 21 && len <= N);
    kani::assume(bytes[len - 4] == 0x4C && bytes[len - 3] == 0x4D);
    kani::assume(bytes[len - 2] == 0x32 && bytes[len - 1] == 0x76);
    kani::assume(bytes[len - 13] <= 5);
    match Reader::new(Cursor::new(&bytes[..len])) {
        Ok(reader) => {
            assert!(reader.file_version() == FileVersion::FormatV1);
            assert!(reader.index_block_offset() == le64(&bytes, len - 21));
            assert!(reader.compression_type() as u8 == bytes[len - 13]);
            assert!(reader.len() == le64(&bytes, len - 12));
            assert!(reader.index_levels() == 0);
            kani::cover!(reader.len() != 0 && reader.index_block_offset() != 0);
            kani::cover!(reader.compression_type() as u8 == 5);
            mem::forget(reader);
        }
        Err(e) => {
            mem::forget(e);
            panic!("C10: a valid version-1 trailer was rejected");
        }
    }
}

fn any_codec() -> CompressionType {
    let id: u8 = kani::any();
    kani::assume(id <= 5);
    match CompressionType::from_u8(id) {
        Some(c) => {
            assert!(c as u8 == id);
            c
        }
        None => panic!("known codec id rejected"),
    }
}

fn any_metadata(version: FileVersion) -> Metadata {
    Metadata {
        file_version: version,
        index_block_offset: kani::any(),
        compression_type: any_codec(),
        entries_count: kani::any(),
        index_levels: if version == FileVersion::FormatV1 { 0 } else { kani::any() },
    }
}

/// C01/C09: write_into(V2) emits exactly the 22 specified bytes, and Reader::new reads every field back.
#[kani::proof]
#[kani::unwind(10)]
fn c09_trailer_bytes_v2() {
    let m = any_metadata(FileVersion::FormatV2);
    let mut out = [0u8; N];
    let n = {
        let mut sink: &mut [u8] = &mut out[..];
        match m.write_into(&mut sink) {
            Ok(n) => n,
            Err(e) => {
                mem::forget(e);
                panic!("write into memory failed")
            }
        }
    };
    assert!(n == 22);
    assert!(le64(&out, 0) == m.index_block_offset);
    assert!(out[8] == m.compression_type as u8);
    assert!(le64(&out, 9) == m.entries_count);
    assert!(out[17] == m.index_levels);
    assert!(out[18] == 0xC4 && out[19] == 0xD4 && out[20] == 0x23 && out[21] == 0x67);
    // round trip through the public open
    match Reader::new(Cursor::new(&out[..22])) {
        Ok(r) => {
            assert!(r.index_block_offset() == m.index_block_offset);
            assert!(r.index_levels() == m.index_levels);
            assert!(r.len() == m.entries_count);
            assert!(r.compression_type() == m.compression_type);
            assert!(r.file_version() == FileVersion::FormatV2);
            mem::forget(r);
        }
        Err(e) => {
            mem::forget(e);
            panic!("C01: trailer written by write_into does not open");
        }
    }
    kani::cover!(m.index_levels == 255 && m.entries_count == u64::MAX);
    kani::cover!(m.compression_type as u8 == 4);
}

/// C10: write_into(V1) is the inverse of the V1 read (non-zero symbolic fields).
#[kani::proof]
#[kani::unwind(10)]
fn c10_trailer_bytes_v1() {
    let m = any_metadata(FileVersion::FormatV1);
    let mut out = [0u8; N];
    let n = {
        let mut sink: &mut [u8] = &mut out[..];
        match m.write_into(&mut sink) {
            Ok(n) => n,
            Err(e) => {
                mem::forget(e);
                panic!("write into memory failed")
            }
        }
    };
    assert!(n == 21);
    assert!(le64(&out, 0) == m.index_block_offset);
    assert!(out[8] == m.compression_type as u8);
    assert!(le64(&out, 9) == m.entries_count);
    assert!(out[17] == 0x4C && out[18] == 0x4D && out[19] == 0x32 && out[20] == 0x76);
    match Reader::new(Cursor::new(&out[..21])) {
        Ok(r) => {
            assert!(r.file_version() == FileVersion::FormatV1);
            assert!(r.index_block_offset() == m.index_block_offset);
            assert!(r.len() == m.entries_count);
            assert!(r.compression_type() == m.compression_type);
            assert!(r.index_levels() == 0);
            mem::forget(r);
        }
        Err(e) => {
            mem::forget(e);
            panic!("C10: V1 trailer does not open");
        }
    }
    kani::cover!(m.entries_count != 0 && m.index_block_offset != 0);
}

/// Counting source for C16: records seeks, bytes read and the lowest position read from.
pub(crate) struct CountSrc<'a> {
    pub data: &'a [u8],
    pub pos: u64,
    pub seeks: u32,
    pub reads: u32,
    pub bytes_read: u64,
    pub lowest_read: u64,
}

impl<'a> Read for CountSrc<'a> {
    fn read(&mut self, buf: &mut [u8]) -> io::Result<usize> {
        let len = self.data.len() as u64;
        let start = if self.pos > len { len } else { self.pos };
        let avail = (len - start) as usize;
        let n = if buf.len() < avail { buf.len() } else { avail };
        let mut i = 0;
        while i < n {
            buf[i] = self.data[start as usize + i];
            i += 1;
        }
        if n > 0 && start < self.lowest_read {
            self.lowest_read = start;
        }
        self.reads += 1;
        self.bytes_read += n as u64;
        self.pos = start + n as u64;
        Ok(n)
    }
}

impl<'a> Seek for CountSrc<'a> {
    fn seek(&mut self, to: SeekFrom) -> io::Result<u64> {
        self.seeks += 1;
        let len = self.data.len() as i128;
        let target: i128 = match to {
            SeekFrom::Start(p) => p as i128,
            SeekFrom::End(d) => len + d as i128,
            SeekFrom::Current(d) => self.pos as i128 + d as i128,
        };
        if target < 0 {
            return Err(io::Error::from(io::ErrorKind::InvalidInput));
        }
        self.pos = target as u64;
        Ok(self.pos)
    }
}

/// C16: opening reads only the trailer: 2 seeks, 4 + 18 (V2) or 4 + 17 (V1) bytes, all inside the last
/// 22 bytes of the file; into_cursor reads nothing.
#[kani::proof]
#[kani::unwind(10)]
fn c16_open_io() {
    let bytes: [u8; N] = kani::any();
    let len: usize = kani::any();
    kani::assume(len >= 22 && len <= N);
    let spec = spec_trailer(&bytes, len);
    kani::assume(spec.is_some());
    let src = CountSrc {
        data: &bytes[..len],
        pos: 0,
        seeks: 0,
        reads: 0,
        bytes_read: 0,
        lowest_read: u64::MAX,
    };
    match Reader::new(src) {
        Ok(reader) => {
            let v2 = reader.file_version() == FileVersion::FormatV2;
            {
                let s = reader.get_ref();
                assert!(s.seeks == 2);
                assert!(s.bytes_read == if v2 { 22 } else { 21 });
                assert!(s.lowest_read >= len as u64 - 22);
            }
            match reader.into_cursor() {
                Ok(cursor) => {
                    let s = cursor.get_ref();
                    assert!(s.seeks == 2);
                    assert!(s.bytes_read == if v2 { 22 } else { 21 });
                    kani::cover!(v2);
                    kani::cover!(!v2);
                    mem::forget(cursor);
                }
                Err(e) => {
                    mem::forget(e);
                    panic!("into_cursor failed");
                }
            }
        }
        Err(e) => {
            mem::forget(e);
            panic!("valid trailer rejected");
        }
    }
}

/// Source that serves every read in short pieces (at most `chop` bytes per call, chop symbolic 1..=8) and may report Interrupted once.
pub(crate) struct ShortSrc<'a> {
    pub data: &'a [u8],
    pub pos: u64,
    pub interrupts: u32,
    /// at most this many bytes per read call (symbolic, chosen once per run: 1..=8)
    pub chop: usize,
}
impl<'a> Read for ShortSrc<'a> {
    fn read(&mut self, buf: &mut [u8]) -> io::Result<usize> {
        if self.interrupts > 0 && kani::any() {
            self.interrupts -= 1;
            return Err(io::Error::from(io::ErrorKind::Interrupted));
        }
        let len = self.data.len() as u64;
        let start = if self.pos > len { len } else { self.pos };
        let avail = (len - start) as usize;
        let mut n = if buf.len() < avail { buf.len() } else { avail };
        if self.chop < n {
            n = self.chop;
        }
        let mut i = 0;
        while i < 8 {
            if i < n {
                buf[i] = self.data[start as usize + i];
            }
            i += 1;
        }
        self.pos = start + n as u64;
        Ok(n)
    }
}
impl<'a> Seek for ShortSrc<'a> {
    fn seek(&mut self, to: SeekFrom) -> io::Result<u64> {
        let len = self.data.len() as i128;
        let target: i128 = match to {
            SeekFrom::Start(p) => p as i128,
            SeekFrom::End(d) => len + d as i128,
            SeekFrom::Current(d) => self.pos as i128 + d as i128,
        };
        if target < 0 {
            return Err(io::Error::from(io::ErrorKind::InvalidInput));
        }
        self.pos = target as u64;
        Ok(self.pos)
    }
}

/// C11 (read side, trailer) / C10: opening over a source that serves reads in arbitrarily short pieces (and interrupts)
/// gives exactly the fields a whole-buffer source gives, for V1 and V2 trailers.
#[kani::proof]
#[kani::unwind(10)]
fn c11_trailer_short_reads() {
    let bytes: [u8; 24] = kani::any();
    let len: usize = kani::any();
    kani::assume(len >= 21 && len <= 24);
    let mut wide = [0u8; N];
    wide[..24].copy_from_slice(&bytes);
    let spec = spec_trailer(&wide, len);
    kani::assume(spec.is_some());
    let chop: usize = kani::any();
    kani::assume(chop >= 1 && chop <= 8);
    let src = ShortSrc { data: &bytes[..len], pos: 0, interrupts: 1, chop };
    match Reader::new(src) {
        Ok(reader) => {
            if let Some((version, offset, codec, count, levels)) = spec {
                assert!(reader.file_version() == version, "C10/C11: version changes with the read schedule");
                assert!(reader.index_block_offset() == offset, "C10/C11: root offset changes with the read schedule");
                assert!(reader.compression_type() as u8 == codec, "C10/C11: codec changes with the read schedule");
                assert!(reader.len() == count, "C10/C11: entry count changes with the read schedule");
                assert!(reader.index_levels() == levels);
                kani::cover!(version == FileVersion::FormatV1 && count != 0 && codec != 0);
                kani::cover!(version == FileVersion::FormatV2);
            }
            mem::forget(reader);
        }
        Err(e) => {
            mem::forget(e);
            panic!("C11: a valid trailer was rejected because reads were short or interrupted");
        }
    }
}
