// C04: RangeIter / RevRangeIter (real code) over the real cursor glue over abstract blocks.
// Child module of crate::reader::range_iter: sees end_contains / start_contains / the iterators' fields.
#![allow(dead_code)]
use std::mem;
use std::ops::Bound;

use super::*;
use crate::block::verif_ac::*;
use crate::metadata::FileVersion;
use crate::reader::reader_cursor::verif_h::{any_probe, any_probe_spec, build_layout, check_strong, eidx, glue_harness, glue_harness_with, open, set_contract_layout, strong_state, Probe};
include!("layout_consts_gen.rs");

fn any_kind() -> u8 {
    let k: u8 = kani::any();
    kani::assume(k <= 2);
    k
}

fn mk_bound<'a>(kind: u8, p: &'a Probe) -> Bound<&'a [u8]> {
    match kind {
        0 => Bound::Unbounded,
        1 => Bound::Included(&p.b[..p.len]),
        _ => Bound::Excluded(&p.b[..p.len]),
    }
}

/// key rank r satisfies the lower bound / upper bound (specification, over ranks)
fn lo_ok(kind: u8, b: u32, r: u32) -> bool {
    match kind {
        0 => true,
        1 => r >= b,
        _ => r > b,
    }
}
fn hi_ok(kind: u8, b: u32, r: u32) -> bool {
    match kind {
        0 => true,
        1 => r <= b,
        _ => r < b,
    }
}

/// K: end_contains / start_contains against the lexicographic definition, all bound kinds, strings <= 3 bytes.
#[kani::proof]
#[kani::unwind(5)]
fn c04_bounds_k() {
    let key = any_probe(3);
    let bnd = any_probe(3);
    let kind = any_kind();
    let kr = rank(&key.b[..key.len]);
    let br = rank(&bnd.b[..bnd.len]);
    let v: Vec<u8> = bnd.b[..bnd.len].to_vec();
    let b: Bound<&Vec<u8>> = match kind {
        0 => Bound::Unbounded,
        1 => Bound::Included(&v),
        _ => Bound::Excluded(&v),
    };
    assert!(end_contains(b, &key.b[..key.len]) == hi_ok(kind, br, kr));
    assert!(start_contains(b, &key.b[..key.len]) == lo_ok(kind, br, kr));
    kani::cover!(kind == 2 && kr == br);
    kani::cover!(kind == 1 && kr == br && key.len == 3);
    kani::cover!(key.len == 2 && bnd.len == 3 && key.b[0] == bnd.b[0] && key.b[1] == bnd.b[1]);
    kani::cover!(bnd.len == 0 && kind == 2);
    mem::forget(v);
}

/// Forward / reverse range iteration from a fresh iterator to the first None.
pub(crate) fn range_check(layout: u8, reverse: bool, minlen: usize, maxlen: usize, probe_max: usize) {
    reset_tables();
    let l = build_layout(layout, minlen, maxlen);
    let (ka, kb) = (any_kind(), any_kind());
    let (pa, pb) = (any_probe(probe_max), any_probe(probe_max));
    let (ra, rb) = (rank(&pa.b[..pa.len]), rank(&pb.b[..pb.len]));
    let c = open(&l, FileVersion::FormatV2);
    let n = l.n;
    // expected: indices i with lo_ok && hi_ok, which form a contiguous run [first, last]
    let mut first: Option<usize> = None;
    let mut last: Option<usize> = None;
    let mut i = 0;
    while i < MAXE {
        if i < n {
            let r = rank(key_of(i));
            if lo_ok(ka, ra, r) && hi_ok(kb, rb, r) {
                if first.is_none() {
                    first = Some(i);
                }
                last = Some(i);
            }
        }
        i += 1;
    }
    let range = (mk_bound(ka, &pa), mk_bound(kb, &pb));
    let mut yielded = 0usize;
    if !reverse {
        let mut it = RangeIter::new::<_, &[u8]>(c, range);
        let mut step = 0;
        while step <= MAXE {
            if step <= n {
                match eidx(it.next(), n) {
                    Ok(Some(g)) => {
                        match first {
                            Some(f) => {
                                assert!(g == f + yielded, "C04: forward range iterator yielded a wrong or out-of-order entry");
                                assert!(g <= last.unwrap(), "C04: forward range iterator yielded an entry beyond the end bound");
                            }
                            None => panic!("C04: range iterator yielded an entry although no key is in range"),
                        }
                        yielded += 1;
                    }
                    Ok(None) => {
                        let expect = match (first, last) {
                            (Some(f), Some(la)) => la - f + 1,
                            _ => 0,
                        };
                        assert!(yielded == expect, "C04: forward range iterator stopped before yielding every in-range entry");
                        break;
                    }
                    Err(()) => panic!("range iterator failed without an I/O fault"),
                }
            }
            step += 1;
        }
        mem::forget(it);
    } else {
        let mut it = RevRangeIter::new::<_, &[u8]>(c, range);
        let mut step = 0;
        while step <= MAXE {
            if step <= n {
                match eidx(it.next(), n) {
                    Ok(Some(g)) => {
                        match last {
                            Some(la) => {
                                assert!(g + yielded == la, "C04: reverse range iterator yielded a wrong or out-of-order entry");
                                assert!(g >= first.unwrap(), "C04: reverse range iterator yielded an entry before the start bound");
                            }
                            None => panic!("C04: reverse range iterator yielded an entry although no key is in range"),
                        }
                        yielded += 1;
                    }
                    Ok(None) => {
                        let expect = match (first, last) {
                            (Some(f), Some(la)) => la - f + 1,
                            _ => 0,
                        };
                        assert!(yielded == expect, "C04: reverse range iterator stopped before yielding every in-range entry");
                        break;
                    }
                    Err(()) => panic!("range iterator failed without an I/O fault"),
                }
            }
            step += 1;
        }
        mem::forget(it);
    }
    if n >= 2 {
        kani::cover!(ka == 2 && kb == 2 && ra == rank(key_of(0)) && rb == rank(key_of(n - 1)));
        kani::cover!(ka != 0 && kb != 0 && ra > rb);
        kani::cover!(ka == 1 && kb == 1 && ra == rb && first.is_some());
        kani::cover!(first == Some(0) && last == Some(n - 1));
        kani::cover!(first.is_some() && first != last && ka != 0 && kb != 0);
        kani::cover!(kb == 2 && rb < rank(key_of(0)) && ka == 0);
        kani::cover!(ka == 2 && ra > rank(key_of(n - 1)));
    }
}

/// First and last in-range indices of the sorted table for the given bounds.
fn in_range_span(n: usize, ka: u8, ra: u32, kb: u8, rb: u32) -> (Option<usize>, Option<usize>) {
    let mut first: Option<usize> = None;
    let mut last: Option<usize> = None;
    let mut i = 0;
    while i < MAXE {
        if i < n {
            let r = rank(key_of(i));
            if lo_ok(ka, ra, r) && hi_ok(kb, rb, r) {
                if first.is_none() {
                    first = Some(i);
                }
                last = Some(i);
            }
        }
        i += 1;
    }
    (first, last)
}

pub(crate) struct RangeFacts {
    pub ka: u8,
    pub kb: u8,
    pub ra: u32,
    pub rb: u32,
    pub n: usize,
    pub expect: Option<usize>,
    pub i: usize,
}

/// The FIRST call of next() on a fresh iterator (initial positioning): yields the first (reverse: last)
/// in-range entry, or None when no key is in range; afterwards the cursor is in RI-strong on that entry.
pub(crate) fn range_first(layout: u8, reverse: bool, minlen: usize, maxlen: usize, probe_max: usize, seek_finds: Option<bool>) -> RangeFacts {
    reset_tables();
    let l = build_layout(layout, minlen, maxlen);
    set_contract_layout(&l);
    let (ka, kb) = (any_kind(), any_kind());
    let (pa, pb) = (any_probe_spec(probe_max), any_probe_spec(probe_max));
    let (ra, rb) = (rank(&pa.b[..pa.len]), rank(&pb.b[..pb.len]));
    let c = open(&l, FileVersion::FormatV2);
    let n = l.n;
    let (first, last) = in_range_span(n, ka, ra, kb, rb);
    // contract variants: restrict to the probe class in which the initial seek finds (does not find) an entry
    if let Some(finds) = seek_finds {
        let found = if !reverse {
            ka == 0 || crate::reader::reader_cursor::verif_h::ceiling(ra, n).is_some()
        } else {
            kb == 0 || crate::reader::reader_cursor::verif_h::floor(rb, n).is_some()
        };
        kani::assume(found == finds);
    }
    let range = (mk_bound(ka, &pa), mk_bound(kb, &pb));
    let expect;
    if !reverse {
        expect = first;
        let mut it = RangeIter::new::<_, &[u8]>(c, range);
        match eidx(it.next(), n) {
            Ok(g) => assert!(g == expect, "C04: forward range iterator does not start on the first in-range entry"),
            Err(()) => panic!("range iterator failed without an I/O fault"),
        }
        assert!(!it.move_on_start);
        if let Some(i) = expect {
            check_strong(&it.cursor, &l, i);
        }
        mem::forget(it);
    } else {
        expect = last;
        let mut it = RevRangeIter::new::<_, &[u8]>(c, range);
        match eidx(it.next(), n) {
            Ok(g) => assert!(g == expect, "C04: reverse range iterator does not start on the last in-range entry"),
            Err(()) => panic!("range iterator failed without an I/O fault"),
        }
        assert!(!it.move_on_start);
        if let Some(i) = expect {
            check_strong(&it.cursor, &l, i);
        }
        mem::forget(it);
    }
    RangeFacts { ka, kb, ra, rb, n, expect, i: 0 }
}

/// Any LATER call of next(): iterator whose cursor sits (RI-strong) on the in-range entry i it yielded last;
/// yields i+1 (reverse: i-1) iff that entry exists and is in range, else None.
pub(crate) fn range_step(layout: u8, reverse: bool, minlen: usize, maxlen: usize, probe_max: usize) -> RangeFacts {
    reset_tables();
    let l = build_layout(layout, minlen, maxlen);
    let (ka, kb) = (any_kind(), any_kind());
    let (pa, pb) = (any_probe_spec(probe_max), any_probe_spec(probe_max));
    let (ra, rb) = (rank(&pa.b[..pa.len]), rank(&pb.b[..pb.len]));
    let n = l.n;
    let i: usize = kani::any();
    kani::assume(i < n);
    let ri = rank(key_of(i));
    kani::assume(lo_ok(ka, ra, ri) && hi_ok(kb, rb, ri)); // the entry yielded last was in range
    let c = strong_state(&l, i, FileVersion::FormatV2);
    let lo = match ka {
        0 => Bound::Unbounded,
        1 => Bound::Included(pa.b[..pa.len].to_vec()),
        _ => Bound::Excluded(pa.b[..pa.len].to_vec()),
    };
    let hi = match kb {
        0 => Bound::Unbounded,
        1 => Bound::Included(pb.b[..pb.len].to_vec()),
        _ => Bound::Excluded(pb.b[..pb.len].to_vec()),
    };
    let expect;
    if !reverse {
        expect = if i + 1 < n && hi_ok(kb, rb, rank(key_of(i + 1))) { Some(i + 1) } else { None };
        let mut it = RangeIter { cursor: c, range: (lo, hi), move_on_start: false };
        match eidx(it.next(), n) {
            Ok(g) => assert!(g == expect, "C04: forward range iterator skipped, repeated or over-ran an entry"),
            Err(()) => panic!("range iterator failed without an I/O fault"),
        }
        if let Some(j) = expect {
            check_strong(&it.cursor, &l, j);
        }
        mem::forget(it);
    } else {
        expect = if i > 0 && lo_ok(ka, ra, rank(key_of(i - 1))) { Some(i - 1) } else { None };
        let mut it = RevRangeIter { cursor: c, range: (lo, hi), move_on_start: false };
        match eidx(it.next(), n) {
            Ok(g) => assert!(g == expect, "C04: reverse range iterator skipped, repeated or over-ran an entry"),
            Err(()) => panic!("range iterator failed without an I/O fault"),
        }
        if let Some(j) = expect {
            check_strong(&it.cursor, &l, j);
        }
        mem::forget(it);
    }
    RangeFacts { ka, kb, ra, rb, n, expect, i }
}

include!("range_gen.rs");
