// AC: the "array cursor" model of a loaded block, used by the L3 glue harnesses in place of real blocks.
// Child module `verif_ac` of crate::block (needs Block's and BlockCursor's private fields).
//
// * a *file* is a set of abstract blocks in static tables: data blocks are ranges of a sorted entry table,
//   index blocks list children; an index entry is (last key of the child's subtree -> child's offset as
//   u64 BE), exactly what the real writer emits (discharged by the L1 writer harnesses);
// * an abstract `Block` carries its id in `payload_size` and owns no heap;
// * `BlockCursor.current_offset` holds the AC position: None | Some(i < count) | Some(count) = End;
// * the seven BlockCursor operations are replaced (kani::stub) by `ac_*`, all of which go through
//   `ac_step`, the same function the L2 harnesses (block_h.rs) prove equal to the real BlockCursor over
//   real blocks;
// * `Block::new` is replaced by `ac_block_new`, which asks the `ModelFile` for the current seek position
//   (= block id) and counts loads / seeks / injects faults.
#![allow(static_mut_refs)]
#![allow(dead_code)]
use std::borrow::Borrow;
use std::io::{self, Read, Seek, SeekFrom};

use super::{Block, BlockCursor};
use crate::{CompressionType, Error};

pub(crate) const MAXN: usize = 3; // entries per block the model supports
pub(crate) const MAXB: usize = 16;
pub(crate) const MAXE: usize = 8;
pub(crate) const MAXI: usize = 16;
pub(crate) const KL: usize = 2;
pub(crate) const VAL_TAG: u8 = 100;

/// Lexicographic rank of a byte string of length <= 3 as an integer (independent of slice comparison).
pub(crate) fn rank(s: &[u8]) -> u32 {
    const W1: u32 = 257; // strings of length <= 1
    const W2: u32 = 1 + 256 * W1; // strings of length <= 2
    let mut r = 0u32;
    if s.len() >= 1 {
        r += 1 + (s[0] as u32) * W2;
        if s.len() >= 2 {
            r += 1 + (s[1] as u32) * W1;
            if s.len() >= 3 {
                r += 1 + s[2] as u32;
            }
        }
    }
    r
}

pub(crate) type Pos = Option<usize>;

pub(crate) const OP_CURRENT: u8 = 0;
pub(crate) const OP_FIRST: u8 = 1;
pub(crate) const OP_LAST: u8 = 2;
pub(crate) const OP_NEXT: u8 = 3;
pub(crate) const OP_PREV: u8 = 4;
pub(crate) const OP_GE: u8 = 5;
pub(crate) const OP_LE: u8 = 6;

/// One operation of the array cursor over a block of `n` entries whose i-th key has rank `key_rank(i)`.
/// Returns (new position, index of the returned entry or None). This *is* the specification of
/// BlockCursor, quirks included (see block_h.rs for the refinement harnesses).
pub(crate) fn ac_step<F: Fn(usize) -> u32>(op: u8, p: Pos, n: usize, q: u32, key_rank: F) -> (Pos, Option<usize>) {
    let ret = |p: Pos| match p {
        Some(i) if i < n => Some(i),
        _ => None,
    };
    match op {
        OP_CURRENT => (p, ret(p)),
        OP_FIRST => (Some(0), ret(Some(0))),
        OP_LAST => {
            if n == 0 {
                (p, ret(p)) // quirk: an empty block leaves the position unchanged
            } else {
                (Some(n - 1), Some(n - 1))
            }
        }
        OP_NEXT => match p {
            None => (Some(0), ret(Some(0))),
            Some(i) if i < n => (Some(i + 1), ret(Some(i + 1))),
            Some(_) => (p, None),
        },
        OP_PREV => match p {
            None => {
                if n == 0 {
                    (p, None)
                } else {
                    (Some(n - 1), Some(n - 1))
                }
            }
            Some(i) if i < n && i > 0 => (Some(i - 1), Some(i - 1)),
            Some(_) => (p, None), // at index 0 or at End: None, position unchanged
        },
        OP_LE => {
            let mut f: Option<usize> = None;
            let mut i = 0;
            while i < MAXN {
                if i < n && key_rank(i) <= q {
                    f = Some(i);
                }
                i += 1;
            }
            (f, f)
        }
        OP_GE => {
            let mut c = n;
            let mut i = MAXN;
            while i > 0 {
                i -= 1;
                if i < n && key_rank(i) >= q {
                    c = i;
                }
            }
            (Some(c), ret(Some(c)))
        }
        _ => (p, None),
    }
}

// ------------------------------------------------------------------------------------------------ tables
// One plain static array per column. IMPORTANT: every `static mut` below has a distinctive NON-ZERO initialiser.
// Kani 0.68 shares the storage of a zero-initialised `static mut` with interned constants of the same bytes (observed:
// `NENT += 1` changed the capacity of every `Vec::new()`), so mutable statics must not look like any constant.
// Real initial values are written at run time by `reset_tables()`.
pub(crate) static mut NBLOCKS: usize = 0x5EED_0001;
pub(crate) static mut IS_INDEX: [u8; MAXB] = [0xA1; MAXB];
pub(crate) static mut FIRST: [usize; MAXB] = [0x5EED_0002; MAXB];
pub(crate) static mut COUNT: [usize; MAXB] = [0x5EED_0003; MAXB];
/// index into the entry table of the last entry of the block's subtree
pub(crate) static mut LASTENT: [usize; MAXB] = [0x5EED_0004; MAXB];
pub(crate) static mut NIDX: usize = 0x5EED_0005;
pub(crate) static mut IDX_CHILD: [usize; MAXI] = [0x5EED_0006; MAXI];
pub(crate) static mut NENT: usize = 0x5EED_0007;
pub(crate) static mut EKEY: [[u8; KL]; MAXE] = [[0xA2; KL]; MAXE];
pub(crate) static mut EKLEN: [usize; MAXE] = [0x5EED_0008; MAXE];
pub(crate) static mut EVAL: [[u8; 1]; MAXE] = [[0xA3; 1]; MAXE];
pub(crate) static mut OFFS_BE: [[u8; 8]; MAXB] = [[0xA4; 8]; MAXB];

/// I/O accounting and fault injection: one scalar static per field (no mixed-size struct: CBMC 6.11 read inconsistent
/// values through such structs), accessed through `t()`, a zero-sized handle whose methods read / write the statics.
pub(crate) static mut IO_LOADS: u32 = 0xA5A5_0001;
pub(crate) static mut IO_SEEKS: u32 = 0xA5A5_0002;
pub(crate) static mut IO_PENDING: u32 = 0xA5A5_0003;
pub(crate) static mut IO_CALLS: u32 = 0xA5A5_0004;
pub(crate) static mut IO_FAIL_AT: u32 = 0xA5A5_0005;
pub(crate) static mut IO_FAIL_KIND: u32 = 0xA5A5_0006;
pub(crate) static mut IO_FAULTED: u32 = 0xA5A5_0007;
pub(crate) static mut IO_PROTOCOL_OK: u32 = 0xA5A5_0008;

#[derive(Clone, Copy)]
pub(crate) struct IoView {
    pub loads: u32,
    pub seeks: u32,
    pub io_calls: u32,
    pub faulted: bool,
    pub protocol_ok: bool,
}

/// snapshot of the counters (by value)
pub(crate) fn t() -> IoView {
    unsafe { IoView { loads: IO_LOADS, seeks: IO_SEEKS, io_calls: IO_CALLS, faulted: IO_FAULTED == 1, protocol_ok: IO_PROTOCOL_OK == 1 } }
}
pub(crate) fn set_fault(fail_at: u32, kind: u8) {
    unsafe {
        IO_FAIL_AT = fail_at;
        IO_FAIL_KIND = kind as u32;
    }
}
pub(crate) fn nblocks() -> usize {
    unsafe { NBLOCKS }
}
pub(crate) fn nent() -> usize {
    unsafe { NENT }
}
pub(crate) fn block_count(b: usize) -> usize {
    unsafe { COUNT[b] }
}
pub(crate) fn block_is_index(b: usize) -> bool {
    unsafe { IS_INDEX[b] == 1 }
}
pub(crate) fn block_child(b: usize, j: usize) -> usize {
    unsafe { IDX_CHILD[FIRST[b] + j] }
}
pub(crate) fn block_first(b: usize) -> usize {
    unsafe { FIRST[b] }
}

/// Append `n` entries with symbolic keys of length minlen..=maxlen (<= KL), strictly ascending after
/// the entries already present; values are the concrete tag VAL_TAG + index. Returns the first index.
pub(crate) fn add_entries(n: usize, minlen: usize, maxlen: usize) -> usize {
    let first = nent();
    let mut j = 0;
    while j < MAXE {
        if j < n {
            let i = nent();
            let len: usize = kani::any();
            kani::assume(len >= minlen && len <= maxlen);
            unsafe {
                EKLEN[i] = len;
                EKEY[i] = kani::any();
                EVAL[i] = [VAL_TAG + i as u8];
            }
            if i > first {
                kani::assume(rank(key_of(i - 1)) < rank(key_of(i)));
            }
            unsafe {
                NENT += 1;
            }
        }
        j += 1;
    }
    first
}

pub(crate) fn key_of(i: usize) -> &'static [u8] {
    unsafe { &EKEY[i][..EKLEN[i]] }
}

fn new_block(is_index: bool, first: usize, count: usize, lastent: usize) -> usize {
    unsafe {
        let b = NBLOCKS;
        IS_INDEX[b] = is_index as u8;
        FIRST[b] = first;
        COUNT[b] = count;
        LASTENT[b] = lastent;
        OFFS_BE[b] = (b as u64).to_be_bytes();
        NBLOCKS += 1;
        b
    }
}

/// A data block holding entries [first, first + count).
pub(crate) fn data_block(first: usize, count: usize) -> usize {
    new_block(false, first, count, if count == 0 { 0 } else { first + count - 1 })
}

/// An index block over the given children (in order); `children[..n]`.
pub(crate) fn index_block(children: &[usize; 4], n: usize) -> usize {
    unsafe {
        let first = NIDX;
        let mut last = 0;
        let mut j = 0;
        while j < 4 {
            if j < n {
                IDX_CHILD[NIDX] = children[j];
                last = LASTENT[children[j]];
                NIDX += 1;
            }
            j += 1;
        }
        new_block(true, first, n, last)
    }
}

pub(crate) fn reset_tables() {
    unsafe {
        NBLOCKS = 0;
        NIDX = 0;
        NENT = 0;
    }
    unsafe {
        IO_LOADS = 0;
        IO_SEEKS = 0;
        IO_PENDING = 0;
        IO_CALLS = 0;
        IO_FAIL_AT = 0;
        IO_FAIL_KIND = 0;
        IO_FAULTED = 0;
        IO_PROTOCOL_OK = 1;
    }
}

/// (key, value) of entry j of block b.
pub(crate) fn ac_entry(b: usize, j: usize) -> (&'static [u8], &'static [u8]) {
    unsafe {
        if IS_INDEX[b] == 1 {
            let child = IDX_CHILD[FIRST[b] + j];
            (key_of(LASTENT[child]), &OFFS_BE[child][..])
        } else {
            let e = FIRST[b] + j;
            (key_of(e), &EVAL[e][..])
        }
    }
}

fn blk<B: Borrow<Block>>(c: &BlockCursor<B>) -> usize {
    c.block.borrow().payload_size
}

fn do_op<B: Borrow<Block>>(c: &mut BlockCursor<B>, op: u8, q: &[u8]) -> Option<(&'static [u8], &'static [u8])> {
    let b = blk(c);
    let n = block_count(b);
    let (p2, r) = ac_step(op, c.current_offset, n, rank(q), |i| rank(ac_entry(b, i).0));
    c.current_offset = p2;
    match r {
        Some(i) => Some(ac_entry(b, i)),
        None => None,
    }
}

// ---- stubs (signatures mirror the BlockCursor methods)
pub(crate) fn ac_current<B: Borrow<Block>>(c: &BlockCursor<B>) -> Option<(&[u8], &[u8])> {
    let b = blk(c);
    match c.current_offset {
        Some(i) if i < block_count(b) => Some(ac_entry(b, i)),
        _ => None,
    }
}
pub(crate) fn ac_first<B: Borrow<Block>>(c: &mut BlockCursor<B>) -> Option<(&[u8], &[u8])> {
    do_op(c, OP_FIRST, &[])
}
pub(crate) fn ac_last<B: Borrow<Block>>(c: &mut BlockCursor<B>) -> Option<(&[u8], &[u8])> {
    do_op(c, OP_LAST, &[])
}
pub(crate) fn ac_next<B: Borrow<Block>>(c: &mut BlockCursor<B>) -> Option<(&[u8], &[u8])> {
    do_op(c, OP_NEXT, &[])
}
pub(crate) fn ac_prev<B: Borrow<Block>>(c: &mut BlockCursor<B>) -> Option<(&[u8], &[u8])> {
    do_op(c, OP_PREV, &[])
}
pub(crate) fn ac_le<'a, B: Borrow<Block>>(c: &'a mut BlockCursor<B>, key: &[u8]) -> Option<(&'a [u8], &'a [u8])> {
    do_op(c, OP_LE, key)
}
pub(crate) fn ac_ge<'a, B: Borrow<Block>>(c: &'a mut BlockCursor<B>, key: &[u8]) -> Option<(&'a [u8], &'a [u8])> {
    do_op(c, OP_GE, key)
}

/// Position accessors for the glue harnesses (state abstraction / symbolic pre-states).
pub(crate) fn cursor_block<B: Borrow<Block>>(c: &BlockCursor<B>) -> usize {
    blk(c)
}
pub(crate) fn cursor_pos<B: Borrow<Block>>(c: &BlockCursor<B>) -> Pos {
    c.current_offset
}
pub(crate) fn make_cursor(block: usize, pos: Pos) -> BlockCursor<Block> {
    BlockCursor { block: abstract_block(block), current_offset: pos }
}
pub(crate) fn abstract_block(id: usize) -> Block {
    Block { compression_type: CompressionType::None, buffer: Vec::new(), payload_size: id, index_offsets: Vec::new() }
}

// ------------------------------------------------------------------------------------------------ file
#[derive(Clone)]
pub(crate) struct ModelFile {
    pub pos: u64,
}

fn io_event() -> io::Result<()> {
    unsafe {
        IO_CALLS += 1;
    }
    if unsafe { IO_FAIL_AT != 0 && IO_CALLS == IO_FAIL_AT } {
        unsafe {
            IO_FAULTED = 1;
        }
        let kind = match unsafe { IO_FAIL_KIND } {
            0 => io::ErrorKind::Other,
            1 => io::ErrorKind::UnexpectedEof,
            2 => io::ErrorKind::PermissionDenied,
            _ => io::ErrorKind::BrokenPipe,
        };
        return Err(io::Error::from(kind));
    }
    Ok(())
}

impl Read for ModelFile {
    /// One call per block load (from ac_block_new): hands back the current seek position.
    fn read(&mut self, buf: &mut [u8]) -> io::Result<usize> {
        io_event()?;
        unsafe {
            IO_LOADS += 1;
            if IO_PENDING != 1 {
                IO_PROTOCOL_OK = 0; // a block load must be preceded by exactly one absolute seek
            }
            IO_PENDING = 0;
        }
        let be = self.pos.to_be_bytes();
        let mut i = 0;
        while i < 8 {
            buf[i] = be[i];
            i += 1;
        }
        Ok(8)
    }
}

impl Seek for ModelFile {
    fn seek(&mut self, to: SeekFrom) -> io::Result<u64> {
        io_event()?;
        unsafe {
            IO_SEEKS += 1;
            IO_PENDING += 1;
        }
        match to {
            SeekFrom::Start(p) => {
                self.pos = p;
            }
            _ => unsafe {
                IO_PROTOCOL_OK = 0; // the cursor glue only ever seeks absolutely
            },
        }
        Ok(self.pos)
    }
}

/// Replacement of Block::new: the block that starts at the reader's current position.
pub(crate) fn ac_block_new<R: io::Read>(reader: &mut R, compression_type: CompressionType) -> Result<Block, Error> {
    let mut buf = [0u8; 8];
    let _n = reader.read(&mut buf)?;
    let id = u64::from_be_bytes(buf) as usize;
    assert!(id < nblocks(), "the glue loaded a block from an offset where no block starts");
    let mut b = abstract_block(id);
    b.compression_type = compression_type;
    Ok(b)
}

pub(crate) fn block_caps(b: &Block) -> (usize, usize) {
    (b.buffer.capacity(), b.index_offsets.capacity())
}
pub(crate) fn cursor_caps(c: &BlockCursor<Block>) -> (usize, usize) {
    block_caps(&c.block)
}

/// Replacement of Block::read_from (in-place reload of an existing block): same model as ac_block_new.
pub(crate) fn ac_block_read_from<R: io::Read>(this: &mut Block, mut reader: R) -> Result<(), Error> {
    let mut buf = [0u8; 8];
    let _n = reader.read(&mut buf)?;
    let id = u64::from_be_bytes(buf) as usize;
    assert!(id < nblocks(), "the glue loaded a block from an offset where no block starts");
    this.payload_size = id;
    Ok(())
}
