// L1: the real Writer (insert / into_inner / compress_and_write_block / CountWrite / Metadata::write_into)
// against `Ref`, an independent array-only encoder of the file format written from the format text (C09).
// Child module of crate::writer: sees Writer's private fields (block_size is set directly so that small
// entries cut blocks; the public clamp to 1024 is checked separately at the real constant).
#![allow(dead_code)]
use std::io::{self, Write};
use std::mem;
use std::num::NonZeroUsize;

use super::*;

pub(crate) const MAXFILE: usize = 400;
pub(crate) const MAXW: usize = 4; // entries per harness
const BE: usize = 4; // entries per reference block

#[derive(Clone, Copy)]
pub(crate) struct WEnt {
    pub klen: usize,
    pub k: [u8; 2],
    pub vlen: usize,
    pub v: [u8; 2],
}
impl WEnt {
    pub fn key(&self) -> &[u8] {
        &self.k[..self.klen]
    }
    pub fn val(&self) -> &[u8] {
        &self.v[..self.vlen]
    }
}

fn key_lt(a: &WEnt, b: &WEnt) -> bool {
    // lexicographic on byte strings of length <= 2
    if a.klen == 0 {
        return b.klen > 0;
    }
    if b.klen == 0 {
        return false;
    }
    if a.k[0] != b.k[0] {
        return a.k[0] < b.k[0];
    }
    if a.klen == 1 {
        return b.klen == 2;
    }
    if b.klen == 1 {
        return false;
    }
    a.k[1] < b.k[1]
}

/// entries with the given (concrete) lengths, symbolic contents, strictly ascending keys
pub(crate) fn any_wents(n: usize, kl: [usize; MAXW], vl: [usize; MAXW]) -> [WEnt; MAXW] {
    let mut es = [WEnt { klen: 0, k: [0; 2], vlen: 0, v: [0; 2] }; MAXW];
    let mut i = 0;
    while i < MAXW {
        es[i] = WEnt { klen: kl[i], k: kani::any(), vlen: vl[i], v: kani::any() };
        if i > 0 && i < n {
            kani::assume(key_lt(&es[i - 1], &es[i]));
        }
        i += 1;
    }
    es
}

// ------------------------------------------------------------------------------------------------ Ref
#[derive(Clone, Copy)]
struct RefBlk {
    klen: [usize; BE],
    k: [[u8; 2]; BE],
    vlen: [usize; BE],
    v: [[u8; 8]; BE],
    n: usize,
}
const EMPTY_BLK: RefBlk = RefBlk { klen: [0; BE], k: [[0; 2]; BE], vlen: [0; BE], v: [[0; 8]; BE], n: 0 };

pub(crate) struct RefFile {
    pub bytes: [u8; MAXFILE],
    pub len: usize,
    /// per emitted block: (offset of its length prefix, uncompressed size, size without its last entry, depth: 0 = data)
    pub nblocks: usize,
    pub blk_size: [usize; 12],
    pub blk_size_wo_last: [usize; 12],
    pub blk_is_cuttable: [bool; 12],
}

fn blk_push(b: &mut RefBlk, k: &[u8], v: &[u8]) {
    let i = b.n;
    b.klen[i] = k.len();
    b.vlen[i] = v.len();
    let mut j = 0;
    while j < 2 {
        if j < k.len() {
            b.k[i][j] = k[j];
        }
        j += 1;
    }
    let mut j = 0;
    while j < 8 {
        if j < v.len() {
            b.v[i][j] = v[j];
        }
        j += 1;
    }
    b.n += 1;
}

fn blk_size_n(b: &RefBlk, n: usize, interval: usize) -> usize {
    let mut payload = 0;
    let mut i = 0;
    while i < BE {
        if i < n {
            payload += 2 + b.klen[i] + b.vlen[i];
        }
        i += 1;
    }
    let offsets = if n == 0 { 1 } else { (n - 1) / interval + 1 };
    payload + 8 * offsets + 4
}

fn put(out: &mut RefFile, byte: u8) {
    out.bytes[out.len] = byte;
    out.len += 1;
}

/// length prefix (u64 BE) ‖ framed entries ‖ offsets (u64 BE, first 0, one per interval) ‖ count (u32 BE)
fn blk_emit(out: &mut RefFile, b: &mut RefBlk, interval: usize, cuttable: bool) -> u64 {
    let at = out.len as u64;
    let size = blk_size_n(b, b.n, interval);
    out.blk_size[out.nblocks] = size;
    out.blk_size_wo_last[out.nblocks] = if b.n == 0 { 0 } else { blk_size_n(b, b.n - 1, interval) };
    out.blk_is_cuttable[out.nblocks] = cuttable;
    out.nblocks += 1;
    let lp = (size as u64).to_be_bytes();
    let mut j = 0;
    while j < 8 {
        put(out, lp[j]);
        j += 1;
    }
    let mut offs = [0u64; BE];
    let mut noffs = 1;
    let mut pos = 0u64;
    let mut i = 0;
    while i < BE {
        if i < b.n {
            if i > 0 && i % interval == 0 {
                offs[noffs] = pos;
                noffs += 1;
            }
            put(out, b.klen[i] as u8);
            put(out, b.vlen[i] as u8);
            let mut j = 0;
            while j < 2 {
                if j < b.klen[i] {
                    put(out, b.k[i][j]);
                }
                j += 1;
            }
            let mut j = 0;
            while j < 8 {
                if j < b.vlen[i] {
                    put(out, b.v[i][j]);
                }
                j += 1;
            }
            pos += (2 + b.klen[i] + b.vlen[i]) as u64;
        }
        i += 1;
    }
    let mut t = 0;
    while t < BE {
        if t < noffs {
            let be = offs[t].to_be_bytes();
            let mut j = 0;
            while j < 8 {
                put(out, be[j]);
                j += 1;
            }
        }
        t += 1;
    }
    let c = (noffs as u32).to_be_bytes();
    let mut j = 0;
    while j < 4 {
        put(out, c[j]);
        j += 1;
    }
    b.n = 0;
    at
}

fn last_key(b: &RefBlk) -> ([u8; 2], usize) {
    (b.k[b.n - 1], b.klen[b.n - 1])
}

/// The whole file for entries[..n], block threshold `bsize`, index interval and levels.
pub(crate) fn ref_file(es: &[WEnt; MAXW], n: usize, bsize: usize, interval: usize, levels: usize) -> RefFile {
    let mut out = RefFile { bytes: [0; MAXFILE], len: 0, nblocks: 0, blk_size: [0; 12], blk_size_wo_last: [0; 12], blk_is_cuttable: [false; 12] };
    let mut data = EMPTY_BLK;
    let mut idx = [EMPTY_BLK; 4]; // idx[0] = root ... idx[levels]
    let mut i = 0;
    while i < MAXW {
        if i < n {
            blk_push(&mut data, es[i].key(), es[i].val());
            if blk_size_n(&data, data.n, interval) >= bsize {
                let (lk, lkl) = last_key(&data);
                let off = out.len as u64;
                blk_push(&mut idx[levels], &lk[..lkl], &off.to_be_bytes());
                blk_emit(&mut out, &mut data, interval, true);
                // index levels >= 2 are cut by the same rule, deepest first; levels 0 and 1 never
                let mut l = levels;
                while l >= 2 {
                    if blk_size_n(&idx[l], idx[l].n, interval) >= bsize && idx[l].n > 0 {
                        let (lk, lkl) = last_key(&idx[l]);
                        let off = out.len as u64;
                        let (head, tail) = idx.split_at_mut(l);
                        blk_push(&mut head[l - 1], &lk[..lkl], &off.to_be_bytes());
                        blk_emit(&mut out, &mut tail[0], interval, true);
                    }
                    l -= 1;
                }
            }
        }
        i += 1;
    }
    // finish: pending data block, then every index level from the deepest to the root
    if data.n > 0 {
        let (lk, lkl) = last_key(&data);
        let off = out.len as u64;
        blk_push(&mut idx[levels], &lk[..lkl], &off.to_be_bytes());
        blk_emit(&mut out, &mut data, interval, true);
    }
    let mut root_off = out.len as u64;
    let mut l = levels + 1;
    while l > 0 {
        l -= 1;
        root_off = out.len as u64;
        if idx[l].n > 0 {
            if l > 0 {
                let (lk, lkl) = last_key(&idx[l]);
                let (head, tail) = idx.split_at_mut(l);
                blk_push(&mut head[l - 1], &lk[..lkl], &root_off.to_be_bytes());
                blk_emit(&mut out, &mut tail[0], interval, l >= 2);
            } else {
                blk_emit(&mut out, &mut idx[0], interval, false);
            }
        } else if l == 0 {
            blk_emit(&mut out, &mut idx[0], interval, false);
        }
    }
    // trailer: root offset LE, codec id, count LE, levels, magic
    let ro = root_off.to_le_bytes();
    let mut j = 0;
    while j < 8 {
        put(&mut out, ro[j]);
        j += 1;
    }
    put(&mut out, 0);
    let cnt = (n as u64).to_le_bytes();
    let mut j = 0;
    while j < 8 {
        put(&mut out, cnt[j]);
        j += 1;
    }
    put(&mut out, levels as u8);
    put(&mut out, 0xC4);
    put(&mut out, 0xD4);
    put(&mut out, 0x23);
    put(&mut out, 0x67);
    out
}

// ------------------------------------------------------------------------------------------------ W3
// The real Writer over real BlockWriters exceeds 20 GB from two index levels or two inserts on (measured; any read of
// block content held inside the Vec<BlockWriter> does too). L1 therefore runs the REAL Writer::insert / into_inner
// (cut decisions, index cascade, offsets taken from the real CountWrite, finish order, trailer fields) over ABSTRACT
// block writers (block_writer_h.rs: no heap, entries in static tables, same strict-order panic), with
//  * compress_and_write_block -> `abs_cwb`: compares the block's length prefix and every framed entry (key, value;
//    for index blocks: last key of the child and its offset as u64 BE) with the reference stream at the current
//    stream position, then advances the real CountWrite by 8 + block size and resets the abstract writer;
//  * Metadata::write_into -> `trailer_model`: compares the trailer FIELDS with the reference stream's last 22 bytes.
// Discharged separately against the real code: BlockWriter = model = reference block encoding (c09_block_ref_*),
// compress_and_write_block emits `len ‖ block` (c09_cwb_unit), Metadata::write_into bytes (c09_trailer_bytes_v2).
use crate::block_writer::verif_h::*;

pub(crate) static mut EXP: [u8; MAXFILE] = [0xA7; MAXFILE];
pub(crate) static mut EXP_LEN: usize = 0x5EED_0101;
pub(crate) static mut EXP_POS: usize = 0x5EED_0102;
pub(crate) static mut EXP_OK: u8 = 0xA8;
pub(crate) static mut EXP_BLOCKS: usize = 0x5EED_0104;
pub(crate) static mut EXP_TRAILER: u8 = 0xA9;
static ZEROS: [u8; 96] = [0; 96];

pub(crate) fn set_expected(r: &RefFile) {
    unsafe {
        EXP = r.bytes;
        EXP_LEN = r.len;
        EXP_POS = 0;
        EXP_OK = 1;
        EXP_BLOCKS = 0;
        EXP_TRAILER = 0;
    }
    abs_reset_all();
}

pub(crate) struct CountSink {
    pub n: usize,
    pub flushes: u32,
}
impl Write for CountSink {
    fn write(&mut self, buf: &[u8]) -> io::Result<usize> {
        self.n += buf.len();
        Ok(buf.len())
    }
    fn flush(&mut self) -> io::Result<()> {
        self.flushes += 1;
        Ok(())
    }
}

fn exp_byte(at: usize, want: u8) {
    unsafe {
        if at >= EXP_LEN || EXP[at] != want {
            EXP_OK = 0;
        }
    }
}

/// Checking model of compress_and_write_block over an abstract block writer.
pub(crate) fn abs_cwb<W: io::Write>(mut writer: W, block_writer: &mut BlockWriter, compression_type: CompressionType, _level: u32) -> io::Result<()> {
    assert!(compression_type == CompressionType::None, "only CompressionType::None is inside the claim");
    let id = abs_id(block_writer);
    let size = abs_size(block_writer);
    unsafe {
        let at = EXP_POS;
        let lp = (size as u64).to_be_bytes();
        let mut j = 0;
        while j < 8 {
            exp_byte(at + j, lp[j]);
            j += 1;
        }
        let mut pos = at + 8;
        let mut i = 0;
        while i < AE {
            if i < AB_N[id] {
                let (kl, vl) = (AB_KLEN[id][i], AB_VLEN[id][i]);
                exp_byte(pos, kl as u8);
                exp_byte(pos + 1, vl as u8);
                let mut j = 0;
                while j < 2 {
                    if j < kl {
                        exp_byte(pos + 2 + j, AB_K[id][i][j]);
                    }
                    j += 1;
                }
                let mut j = 0;
                while j < 8 {
                    if j < vl {
                        exp_byte(pos + 2 + kl + j, AB_V[id][i][j]);
                    }
                    j += 1;
                }
                pos += 2 + kl + vl;
            }
            i += 1;
        }
        // (offset table and count are BlockWriter's business: c09_block_ref_*)
        EXP_POS = at + 8 + size;
        EXP_BLOCKS += 1;
    }
    abs_clear(id);
    assert!(8 + size <= 96);
    writer.write_all(&ZEROS[..8 + size])
}

/// Checking model of Metadata::write_into.
pub(crate) fn trailer_model<W: io::Write>(m: &crate::metadata::Metadata, mut writer: W) -> io::Result<usize> {
    unsafe {
        let at = EXP_POS;
        if at + 22 != EXP_LEN {
            EXP_OK = 0;
        } else {
            let ro = m.index_block_offset.to_le_bytes();
            let cnt = m.entries_count.to_le_bytes();
            let mut j = 0;
            while j < 8 {
                exp_byte(at + j, ro[j]);
                exp_byte(at + 9 + j, cnt[j]);
                j += 1;
            }
            exp_byte(at + 8, m.compression_type as u8);
            exp_byte(at + 17, m.index_levels);
            if m.file_version != crate::metadata::FileVersion::FormatV2 {
                EXP_OK = 0;
            }
        }
        EXP_POS = at + 22;
        EXP_TRAILER += 1;
    }
    writer.write_all(&ZEROS[..22])?;
    Ok(22)
}

/// A Writer over abstract block writers (ids: 0 = data, 1 = root index, ..., levels + 1 = deepest index level).
pub(crate) fn mk_abs_writer(bsize: usize, interval: usize, levels: u8) -> Writer<CountSink> {
    let mut index_block_writers = Vec::with_capacity(levels as usize + 1);
    let mut l = 0;
    while l < 5 {
        if l <= levels as usize {
            index_block_writers.push(abs_writer(l + 1, interval));
        }
        l += 1;
    }
    Writer {
        block_writer: abs_writer(0, interval),
        index_block_writers,
        compression_type: CompressionType::None,
        compression_level: 0,
        block_size: bsize,
        entries_count: 0,
        writer: CountWrite::new(CountSink { n: 0, flushes: 0 }),
    }
}

pub(crate) struct WFacts {
    pub nblocks: usize,
    pub len: usize,
}

/// Ref = Writer (W3).
pub(crate) fn writer_ref_check(n: usize, kl: [usize; MAXW], vl: [usize; MAXW], bsize: usize, interval: usize, levels: u8) -> WFacts {
    let es = any_wents(n, kl, vl);
    let r = ref_file(&es, n, bsize, interval, levels as usize);
    set_expected(&r);
    let mut w = mk_abs_writer(bsize, interval, levels);
    let mut i = 0;
    while i < MAXW {
        if i < n {
            match w.insert(es[i].key(), es[i].val()) {
                Ok(()) => {}
                Err(e) => {
                    mem::forget(e);
                    panic!("insert failed on a sink that never fails");
                }
            }
        }
        i += 1;
    }
    assert!(w.entries_count == n as u64);
    match w.into_inner() {
        Ok(sink) => unsafe {
            assert!(EXP_OK == 1, "C01/C09: an emitted block or the trailer differs from the format's reference encoding");
            assert!(EXP_POS == r.len && sink.n == r.len, "C01/C09: the emitted stream is shorter or longer than the reference encoding");
            assert!(EXP_BLOCKS == r.nblocks, "C01/C09: number of emitted blocks differs from the reference layout");
            assert!(EXP_TRAILER == 1, "the trailer is written exactly once, last");
            assert!(sink.flushes == 1, "the sink is flushed exactly once before it is handed back");
        },
        Err(e) => {
            mem::forget(e);
            panic!("into_inner failed on a sink that never fails");
        }
    }
    let mut b = 0;
    while b < 9 {
        if b < r.nblocks && r.blk_is_cuttable[b] {
            assert!(r.blk_size_wo_last[b] < bsize, "C15: a block was not cut as soon as it reached the block size");
        }
        b += 1;
    }
    WFacts { nblocks: r.nblocks, len: r.len }
}

macro_rules! writer_harness {
    ($name:ident, $body:block) => {
        #[kani::proof]
        #[kani::unwind(10)]
        #[kani::stub(crate::writer::compress_and_write_block, crate::writer::verif_h::abs_cwb)]
        #[kani::stub(crate::metadata::Metadata::write_into, crate::writer::verif_h::trailer_model)]
        #[kani::stub(crate::block_writer::BlockWriter::insert, crate::block_writer::verif_h::abs_insert)]
        #[kani::stub(crate::block_writer::BlockWriter::current_size_estimate, crate::block_writer::verif_h::abs_size)]
        #[kani::stub(crate::block_writer::BlockWriter::last_key, crate::block_writer::verif_h::abs_last_key)]
        fn $name() $body
    };
}

pub(crate) static mut SEEN_LEVELS: u32 = 0x5EED_0301;
pub(crate) static mut SEEN_ROOT: u64 = 0x5EED_0302;

pub(crate) fn trailer_recorder<W: io::Write>(m: &crate::metadata::Metadata, mut writer: W) -> io::Result<usize> {
    unsafe {
        SEEN_LEVELS = m.index_levels as u32;
        SEEN_ROOT = m.index_block_offset;
    }
    writer.write_all(&ZEROS[..22])?;
    Ok(22)
}

/// C01 (depth): finishing an empty writer with `levels` index levels does not overflow and records `levels` in the trailer.
pub(crate) fn depth_check(levels: usize) {
    abs_reset_all();
    let mut index_block_writers = Vec::with_capacity(levels + 1);
    let mut l = 0;
    while l <= levels {
        index_block_writers.push(abs_writer(1, 8));
        l += 1;
    }
    let w = Writer {
        block_writer: abs_writer(0, 8),
        index_block_writers,
        compression_type: CompressionType::None,
        compression_level: 0,
        block_size: 1024,
        entries_count: 0,
        writer: CountWrite::new(CountSink { n: 0, flushes: 0 }),
    };
    unsafe {
        EXP_LEN = MAXFILE;
        EXP_POS = 0;
        EXP_BLOCKS = 0;
    }
    match w.into_inner() {
        Ok(sink) => unsafe {
            assert!(SEEN_LEVELS as usize == levels, "C01: the trailer does not record the configured number of index levels");
            assert!(SEEN_ROOT == 0 && EXP_BLOCKS == 1 && sink.n == 8 + 12 + 22, "empty file: one empty root block at offset 0, then the trailer");
        },
        Err(e) => {
            mem::forget(e);
            panic!("into_inner failed");
        }
    }
}

macro_rules! depth_harness {
    ($name:ident, $levels:expr, $unwind:expr) => {
        #[kani::proof]
        #[kani::unwind($unwind)]
        #[kani::stub(crate::writer::compress_and_write_block, crate::writer::verif_h::abs_cwb)]
        #[kani::stub(crate::metadata::Metadata::write_into, crate::writer::verif_h::trailer_recorder)]
        #[kani::stub(crate::block_writer::BlockWriter::insert, crate::block_writer::verif_h::abs_insert)]
        #[kani::stub(crate::block_writer::BlockWriter::current_size_estimate, crate::block_writer::verif_h::abs_size)]
        #[kani::stub(crate::block_writer::BlockWriter::last_key, crate::block_writer::verif_h::abs_last_key)]
        fn $name() {
            depth_check($levels);
            kani::cover!(true);
        }
    };
}
depth_harness!(c01_depth_0, 0, 10);
depth_harness!(c01_depth_3, 3, 10);

/// C15: the public block-size setter clamps to the real minimum (1024) for every usize.
#[kani::proof]
fn c15_clamp() {
    let s: usize = kani::any();
    let mut b = WriterBuilder::new();
    b.block_size(s);
    assert!(b.block_size == if s < 1024 { 1024 } else { s });
    assert!(WriterBuilder::new().block_size == 8192);
    kani::cover!(s == 1023);
    kani::cover!(s == 1024);
    kani::cover!(s == 0);
    kani::cover!(s == usize::MAX);
}

include!("writer_gen.rs");
