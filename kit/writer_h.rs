// L1: the real Writer (insert / into_inner / compress_and_write_block / CountWrite / Metadata::write_into)
// against `Ref`, an independent array-only encoder of the file format written from the format text (C09).
// Child module of crate::writer: sees Writer's private fields (block_size is set directly so that small
// entries cut blocks; the public clamp to 1024 is checked separately at the real constant).
#![allow(dead_code)]
use std::io::{self, Write};
use std::mem;
use std::num::NonZeroUsize;

use super::*;

pub(crate) const MAXFILE: usize = 400;
pub(crate) const MAXW: usize = 4; // entries per harness
const BE: usize = 4; // entries per reference block

#[derive(Clone, Copy)]
pub(crate) struct WEnt {
    pub klen: usize,
    pub k: [u8; 2],
    pub vlen: usize,
    pub v: [u8; 2],
}
impl WEnt {
    pub fn key(&self) -> &[u8] {
        &self.k[..self.klen]
    }
    pub fn val(&self) -> &[u8] {
        &self.v[..self.vlen]
    }
}

fn key_lt(a: &WEnt, b: &WEnt) -> bool {
    // lexicographic on byte strings of length <= 2
    if a.klen == 0 {
        return b.klen > 0;
    }
    if b.klen == 0 {
        return false;
    }
    if a.k[0] != b.k[0] {
        return a.k[0] < b.k[0];
    }
    if a.klen == 1 {
        return b.klen == 2;
    }
    if b.klen == 1 {
        return false;
    }
    a.k[1] < b.k[1]
}

/// entries with the given (concrete) lengths, symbolic contents, strictly ascending keys
pub(crate) fn any_wents(n: usize, kl: [usize; MAXW], vl: [usize; MAXW]) -> [WEnt; MAXW] {
    let mut es = [WEnt { klen: 0, k: [0; 2], vlen: 0, v: [0; 2] }; MAXW];
    let mut i = 0;
    while i < MAXW {
        es[i] = WEnt { klen: kl[i], k: kani::any(), vlen: vl[i], v: kani::any() };
        if i > 0 && i < n {
            kani::assume(key_lt(&es[i - 1], &es[i]));
        }
        i += 1;
    }
    es
}

// ------------------------------------------------------------------------------------------------ Ref
#[derive(Clone, Copy)]
struct RefBlk {
    klen: [usize; BE],
    k: [[u8; 2]; BE],
    vlen: [usize; BE],
    v: [[u8; 8]; BE],
    n: usize,
}
const EMPTY_BLK: RefBlk = RefBlk { klen: [0; BE], k: [[0; 2]; BE], vlen: [0; BE], v: [[0; 8]; BE], n: 0 };

pub(crate) struct RefFile {
    pub bytes: [u8; MAXFILE],
    pub len: usize,
    /// per emitted block: (offset of its length prefix, uncompressed size, size without its last entry, depth: 0 = data)
    pub nblocks: usize,
    pub blk_size: [usize; 12],
    pub blk_size_wo_last: [usize; 12],
    pub blk_is_cuttable: [bool; 12],
}

fn blk_push(b: &mut RefBlk, k: &[u8], v: &[u8]) {
    let i = b.n;
    b.klen[i] = k.len();
    b.vlen[i] = v.len();
    let mut j = 0;
    while j < 2 {
        if j < k.len() {
            b.k[i][j] = k[j];
        }
        j += 1;
    }
    let mut j = 0;
    while j < 8 {
        if j < v.len() {
            b.v[i][j] = v[j];
        }
        j += 1;
    }
    b.n += 1;
}

fn blk_size_n(b: &RefBlk, n: usize, interval: usize) -> usize {
    let mut payload = 0;
    let mut i = 0;
    while i < BE {
        if i < n {
            payload += 2 + b.klen[i] + b.vlen[i];
        }
        i += 1;
    }
    let offsets = if n == 0 { 1 } else { (n - 1) / interval + 1 };
    payload + 8 * offsets + 4
}

fn put(out: &mut RefFile, byte: u8) {
    out.bytes[out.len] = byte;
    out.len += 1;
}

/// length prefix (u64 BE) ‖ framed entries ‖ offsets (u64 BE, first 0, one per interval) ‖ count (u32 BE)
fn blk_emit(out: &mut RefFile, b: &mut RefBlk, interval: usize, cuttable: bool) -> u64 {
    let at = out.len as u64;
    let size = blk_size_n(b, b.n, interval);
    out.blk_size[out.nblocks] = size;
    out.blk_size_wo_last[out.nblocks] = if b.n == 0 { 0 } else { blk_size_n(b, b.n - 1, interval) };
    out.blk_is_cuttable[out.nblocks] = cuttable;
    out.nblocks += 1;
    let lp = (size as u64).to_be_bytes();
    let mut j = 0;
    while j < 8 {
        put(out, lp[j]);
        j += 1;
    }
    let mut offs = [0u64; BE];
    let mut noffs = 1;
    let mut pos = 0u64;
    let mut i = 0;
    while i < BE {
        if i < b.n {
            if i > 0 && i % interval == 0 {
                offs[noffs] = pos;
                noffs += 1;
            }
            put(out, b.klen[i] as u8);
            put(out, b.vlen[i] as u8);
            let mut j = 0;
            while j < 2 {
                if j < b.klen[i] {
                    put(out, b.k[i][j]);
                }
                j += 1;
            }
            let mut j = 0;
            while j < 8 {
                if j < b.vlen[i] {
                    put(out, b.v[i][j]);
                }
                j += 1;
            }
            pos += (2 + b.klen[i] + b.vlen[i]) as u64;
        }
        i += 1;
    }
    let mut t = 0;
    while t < BE {
        if t < noffs {
            let be = offs[t].to_be_bytes();
            let mut j = 0;
            while j < 8 {
                put(out, be[j]);
                j += 1;
            }
        }
        t += 1;
    }
    let c = (noffs as u32).to_be_bytes();
    let mut j = 0;
    while j < 4 {
        put(out, c[j]);
        j += 1;
    }
    b.n = 0;
    at
}

fn last_key(b: &RefBlk) -> ([u8; 2], usize) {
    (b.k[b.n - 1], b.klen[b.n - 1])
}

/// The whole file for entries[..n], block threshold `bsize`, index interval and levels.
pub(crate) fn ref_file(es: &[WEnt; MAXW], n: usize, bsize: usize, interval: usize, levels: usize) -> RefFile {
    let mut out = RefFile { bytes: [0; MAXFILE], len: 0, nblocks: 0, blk_size: [0; 12], blk_size_wo_last: [0; 12], blk_is_cuttable: [false; 12] };
    let mut data = EMPTY_BLK;
    let mut idx = [EMPTY_BLK; 4]; // idx[0] = root ... idx[levels]
    let mut i = 0;
    while i < MAXW {
        if i < n {
            blk_push(&mut data, es[i].key(), es[i].val());
            if blk_size_n(&data, data.n, interval) >= bsize {
                let (lk, lkl) = last_key(&data);
                let off = out.len as u64;
                blk_push(&mut idx[levels], &lk[..lkl], &off.to_be_bytes());
                blk_emit(&mut out, &mut data, interval, true);
                // index levels >= 2 are cut by the same rule, deepest first; levels 0 and 1 never
                let mut l = levels;
                while l >= 2 {
                    if blk_size_n(&idx[l], idx[l].n, interval) >= bsize && idx[l].n > 0 {
                        let (lk, lkl) = last_key(&idx[l]);
                        let off = out.len as u64;
                        let (head, tail) = idx.split_at_mut(l);
                        blk_push(&mut head[l - 1], &lk[..lkl], &off.to_be_bytes());
                        blk_emit(&mut out, &mut tail[0], interval, true);
                    }
                    l -= 1;
                }
            }
        }
        i += 1;
    }
    // finish: pending data block, then every index level from the deepest to the root
    if data.n > 0 {
        let (lk, lkl) = last_key(&data);
        let off = out.len as u64;
        blk_push(&mut idx[levels], &lk[..lkl], &off.to_be_bytes());
        blk_emit(&mut out, &mut data, interval, true);
    }
    let mut root_off = out.len as u64;
    let mut l = levels + 1;
    while l > 0 {
        l -= 1;
        root_off = out.len as u64;
        if idx[l].n > 0 {
            if l > 0 {
                let (lk, lkl) = last_key(&idx[l]);
                let (head, tail) = idx.split_at_mut(l);
                blk_push(&mut head[l - 1], &lk[..lkl], &root_off.to_be_bytes());
                blk_emit(&mut out, &mut tail[0], interval, l >= 2);
            } else {
                blk_emit(&mut out, &mut idx[0], interval, false);
            }
        } else if l == 0 {
            blk_emit(&mut out, &mut idx[0], interval, false);
        }
    }
    // trailer: root offset LE, codec id, count LE, levels, magic
    let ro = root_off.to_le_bytes();
    let mut j = 0;
    while j < 8 {
        put(&mut out, ro[j]);
        j += 1;
    }
    put(&mut out, 0);
    let cnt = (n as u64).to_le_bytes();
    let mut j = 0;
    while j < 8 {
        put(&mut out, cnt[j]);
        j += 1;
    }
    put(&mut out, levels as u8);
    put(&mut out, 0xC4);
    put(&mut out, 0xD4);
    put(&mut out, 0x23);
    put(&mut out, 0x67);
    out
}

// ------------------------------------------------------------------------------------------------ W3
// The real Writer over real BlockWriters exceeds 20 GB from two index levels or two inserts on (measured; any read of
// block content held inside the Vec<BlockWriter> does too). L1 therefore runs the REAL Writer::insert / into_inner
// (cut decisions, index cascade, offsets taken from the real CountWrite, finish order, trailer fields) over ABSTRACT
// block writers (block_writer_h.rs: no heap, entries in static tables, same strict-order panic), with
//  * compress_and_write_block -> `abs_cwb`: compares the block's length prefix and every framed entry (key, value;
//    for index blocks: last key of the child and its offset as u64 BE) with the reference stream at the current
//    stream position, then advances the real CountWrite by 8 + block size and resets the abstract writer;
//  * Metadata::write_into -> `trailer_model`: compares the trailer FIELDS with the reference stream's last 22 bytes.
// Discharged separately against the real code: BlockWriter = model = reference block encoding (c09_block_ref_*),
// compress_and_write_block emits `len ‖ block` (c09_cwb_unit), Metadata::write_into bytes (c09_trailer_bytes_v2).
use crate::block_writer::verif_h::*;

pub(crate) static mut EXP: [u8; MAXFILE] = [0xA7; MAXFILE];
pub(crate) static mut EXP_LEN: usize = 0x5EED_0101;
pub(crate) static mut EXP_POS: usize = 0x5EED_0102;
pub(crate) static mut EXP_OK: u8 = 0xA8;
pub(crate) static mut EXP_BLOCKS: usize = 0x5EED_0104;
pub(crate) static mut EXP_TRAILER: u8 = 0xA9;
static ZEROS: [u8; 96] = [0; 96];

pub(crate) fn set_expected(r: &RefFile) {
    unsafe {
        EXP = r.bytes;
        EXP_LEN = r.len;
        EXP_POS = 0;
        EXP_OK = 1;
        EXP_BLOCKS = 0;
        EXP_TRAILER = 0;
    }
    abs_reset_all();
}

pub(crate) struct CountSink {
    pub n: usize,
    pub flushes: u32,
}
impl Write for CountSink {
    fn write(&mut self, buf: &[u8]) -> io::Result<usize> {
        self.n += buf.len();
        Ok(buf.len())
    }
    fn flush(&mut self) -> io::Result<()> {
        self.flushes += 1;
        Ok(())
    }
}

fn exp_byte(at: usize, want: u8) {
    unsafe {
        if at >= EXP_LEN || EXP[at] != want {
            EXP_OK = 0;
        }
    }
}

/// Checking model of compress_and_write_block over an abstract block writer.
pub(crate) fn abs_cwb<W: io::Write>(mut writer: W, block_writer: &mut BlockWriter, compression_type: CompressionType, _level: u32) -> io::Result<()> {
    assert!(compression_type == CompressionType::None, "only CompressionType::None is inside the claim");
    let id = abs_id(block_writer);
    let size = abs_size(block_writer);
    unsafe {
        let at = EXP_POS;
        let lp = (size as u64).to_be_bytes();
        let mut j = 0;
        while j < 8 {
            exp_byte(at + j, lp[j]);
            j += 1;
        }
        let mut pos = at + 8;
        let mut i = 0;
        while i < AE {
            if i < AB_N[id] {
                let (kl, vl) = (AB_KLEN[id][i], AB_VLEN[id][i]);
                exp_byte(pos, kl as u8);
                exp_byte(pos + 1, vl as u8);
                let mut j = 0;
                while j < 2 {
                    if j < kl {
                        exp_byte(pos + 2 + j, AB_K[id][i][j]);
                    }
                    j += 1;
                }
                let mut j = 0;
                while j < 8 {
                    if j < vl {
                        exp_byte(pos + 2 + kl + j, AB_V[id][i][j]);
                    }
                    j += 1;
                }
                pos += 2 + kl + vl;
            }
            i += 1;
        }
        // (offset table and count are BlockWriter's business: c09_block_ref_*)
        EXP_POS = at + 8 + size;
        EXP_BLOCKS += 1;
    }
    abs_clear(id);
    assert!(8 + size <= 96);
    writer.write_all(&ZEROS[..8 + size])
}

/// Checking model of Metadata::write_into.
pub(crate) fn trailer_model<W: io::Write>(m: &crate::metadata::Metadata, mut writer: W) -> io::Result<usize> {
    unsafe {
        let at = EXP_POS;
        if at + 22 != EXP_LEN {
            EXP_OK = 0;
        } else {
            let ro = m.index_block_offset.to_le_bytes();
            let cnt = m.entries_count.to_le_bytes();
            let mut j = 0;
            while j < 8 {
                exp_byte(at + j, ro[j]);
                exp_byte(at + 9 + j, cnt[j]);
                j += 1;
            }
            exp_byte(at + 8, m.compression_type as u8);
            exp_byte(at + 17, m.index_levels);
            if m.file_version != crate::metadata::FileVersion::FormatV2 {
                EXP_OK = 0;
            }
        }
        EXP_POS = at + 22;
        EXP_TRAILER += 1;
    }
    writer.write_all(&ZEROS[..22])?;
    Ok(22)
}

/// A Writer over abstract block writers (ids: 0 = data, 1 = root index, ..., levels + 1 = deepest index level).
pub(crate) fn mk_abs_writer(bsize: usize, interval: usize, levels: u8) -> Writer<CountSink> {
    let mut index_block_writers = Vec::with_capacity(levels as usize + 1);
    let mut l = 0;
    while l < 5 {
        if l <= levels as usize {
            index_block_writers.push(abs_writer(l + 1, interval));
        }
        l += 1;
    }
    Writer {
        block_writer: abs_writer(0, interval),
        index_block_writers,
        compression_type: CompressionType::None,
        compression_level: 0,
        block_size: bsize,
        entries_count: 0,
        writer: CountWrite::new(CountSink { n: 0, flushes: 0 }),
    }
}

pub(crate) struct WFacts {
    pub nblocks: usize,
    pub len: usize,
}

/// Ref = Writer (W3).
pub(crate) fn writer_ref_check(n: usize, kl: [usize; MAXW], vl: [usize; MAXW], bsize: usize, interval: usize, levels: u8) -> WFacts {
    let es = any_wents(n, kl, vl);
    let r = ref_file(&es, n, bsize, interval, levels as usize);
    set_expected(&r);
    let mut w = mk_abs_writer(bsize, interval, levels);
    let mut i = 0;
    while i < MAXW {
        if i < n {
            match w.insert(es[i].key(), es[i].val()) {
                Ok(()) => {}
                Err(e) => {
                    mem::forget(e);
                    panic!("insert failed on a sink that never fails");
                }
            }
        }
        i += 1;
    }
    assert!(w.entries_count == n as u64);
    match w.into_inner() {
        Ok(sink) => unsafe {
            assert!(EXP_OK == 1, "C01/C09: an emitted block or the trailer differs from the format's reference encoding");
            assert!(EXP_POS == r.len && sink.n == r.len, "C01/C09: the emitted stream is shorter or longer than the reference encoding");
            assert!(EXP_BLOCKS == r.nblocks, "C01/C09: number of emitted blocks differs from the reference layout");
            assert!(EXP_TRAILER == 1, "the trailer is written exactly once, last");
            assert!(sink.flushes == 1, "the sink is flushed exactly once before it is handed back");
        },
        Err(e) => {
            mem::forget(e);
            panic!("into_inner failed on a sink that never fails");
        }
    }
    let mut b = 0;
    while b < 9 {
        if b < r.nblocks && r.blk_is_cuttable[b] {
            assert!(r.blk_size_wo_last[b] < bsize, "C15: a block was not cut as soon as it reached the block size");
        }
        b += 1;
    }
    WFacts { nblocks: r.nblocks, len: r.len }
}

macro_rules! writer_harness {
    ($name:ident, $body:block) => {
        #[kani::proof]
        #[kani::unwind(10)]
        #[kani::stub(crate::writer::compress_and_write_block, crate::writer::verif_h::abs_cwb)]
        #[kani::stub(crate::metadata::Metadata::write_into, crate::writer::verif_h::trailer_model)]
        #[kani::stub(crate::block_writer::BlockWriter::insert, crate::block_writer::verif_h::abs_insert)]
        #[kani::stub(crate::block_writer::BlockWriter::current_size_estimate, crate::block_writer::verif_h::abs_size)]
        #[kani::stub(crate::block_writer::BlockWriter::last_key, crate::block_writer::verif_h::abs_last_key)]
        fn $name() $body
    };
}

pub(crate) static mut SEEN_LEVELS: u32 = 0x5EED_0301;
pub(crate) static mut SEEN_ROOT: u64 = 0x5EED_0302;

pub(crate) fn trailer_recorder<W: io::Write>(m: &crate::metadata::Metadata, mut writer: W) -> io::Result<usize> {
    unsafe {
        SEEN_LEVELS = m.index_levels as u32;
        SEEN_ROOT = m.index_block_offset;
    }
    writer.write_all(&ZEROS[..22])?;
    Ok(22)
}

/// C01 (depth): finishing an empty writer with `levels` index levels does not overflow and records `levels` in the trailer.
pub(crate) fn depth_check(levels: usize) {
    abs_reset_all();
    let mut index_block_writers = Vec::with_capacity(levels + 1);
    let mut l = 0;
    while l <= levels {
        index_block_writers.push(abs_writer(1, 8));
        l += 1;
    }
    let w = Writer {
        block_writer: abs_writer(0, 8),
        index_block_writers,
        compression_type: CompressionType::None,
        compression_level: 0,
        block_size: 1024,
        entries_count: 0,
        writer: CountWrite::new(CountSink { n: 0, flushes: 0 }),
    };
    unsafe {
        EXP_LEN = MAXFILE;
        EXP_POS = 0;
        EXP_BLOCKS = 0;
    }
    match w.into_inner() {
        Ok(sink) => unsafe {
            assert!(SEEN_LEVELS as usize == levels, "C01: the trailer does not record the configured number of index levels");
            assert!(SEEN_ROOT == 0 && EXP_BLOCKS == 1 && sink.n == 8 + 12 + 22, "empty file: one empty root block at offset 0, then the trailer");
        },
        Err(e) => {
            mem::forget(e);
            panic!("into_inner failed");
        }
    }
}

macro_rules! depth_harness {
    ($name:ident, $levels:expr, $unwind:expr) => {
        #[kani::proof]
        #[kani::unwind($unwind)]
        #[kani::stub(crate::writer::compress_and_write_block, crate::writer::verif_h::abs_cwb)]
        #[kani::stub(crate::metadata::Metadata::write_into, crate::writer::verif_h::trailer_recorder)]
        #[kani::stub(crate::block_writer::BlockWriter::insert, crate::block_writer::verif_h::abs_insert)]
        #[kani::stub(crate::block_writer::BlockWriter::current_size_estimate, crate::block_writer::verif_h::abs_size)]
        #[kani::stub(crate::block_writer::BlockWriter::last_key, crate::block_writer::verif_h::abs_last_key)]
        fn $name() {
            depth_check($levels);
            kani::cover!(true);
        }
    };
}
depth_harness!(c01_depth_0, 0, 10);
depth_harness!(c01_depth_3, 3, 10);

/// C15: the public block-size setter clamps to the real minimum (1024) for every usize.
#[kani::proof]
fn c15_clamp() {
    let s: usize = kani::any();
    let mut b = WriterBuilder::new();
    b.block_size(s);
    assert!(b.block_size == if s < 1024 { 1024 } else { s });
    assert!(WriterBuilder::new().block_size == 8192);
    kani::cover!(s == 1023);
    kani::cover!(s == 1024);
    kani::cover!(s == 0);
    kani::cover!(s == usize::MAX);
}

macro_rules! writer_harness_faults {
    ($name:ident, $body:block) => {
        #[kani::proof]
        #[kani::unwind(10)]
        #[kani::stub(crate::writer::compress_and_write_block, crate::writer::verif_h::abs_cwb)]
        #[kani::stub(crate::block_writer::BlockWriter::insert, crate::block_writer::verif_h::abs_insert)]
        #[kani::stub(crate::block_writer::BlockWriter::current_size_estimate, crate::block_writer::verif_h::abs_size)]
        #[kani::stub(crate::block_writer::BlockWriter::last_key, crate::block_writer::verif_h::abs_last_key)]
        fn $name() $body
    };
}

// ------------------------------------------------------------------------------------------------ W1 / C11 / C12
/// Sink of the unit harnesses: compares what it accepts with the expected stream (few objects here, so reading `buf`
/// is affordable). CHOP: accepts a symbolic 1..=len prefix of each write or reports Interrupted (<= 2 times).
/// FAULTS: the `fail_at`-th call (write or flush, symbolic) fails with PermissionDenied.
pub(crate) struct USink<'a, const CHOP: bool, const FAULTS: bool, const MAXBUF: usize> {
    pub expect: &'a [u8; 80],
    pub len: usize,
    pub pos: usize,
    pub ok: bool,
    pub interrupts: u32,
    pub calls: u32,
    pub fail_at: u32,
    pub faulted: bool,
    pub flushes: u32,
}

impl<'a, const CHOP: bool, const FAULTS: bool, const MAXBUF: usize> Write for USink<'a, CHOP, FAULTS, MAXBUF> {
    fn write(&mut self, buf: &[u8]) -> io::Result<usize> {
        self.calls += 1;
        if FAULTS && self.calls == self.fail_at {
            self.faulted = true;
            return Err(io::Error::from(io::ErrorKind::PermissionDenied));
        }
        let mut n = buf.len();
        if CHOP && n > 0 {
            if self.interrupts > 0 && kani::any() {
                self.interrupts -= 1;
                return Err(io::Error::from(io::ErrorKind::Interrupted));
            }
            // accepts any prefix of at least half of what is offered (bounds write_all's retries by log2(len) + 2;
            // shorter accepts are outside this harness, the per-call accounting for ANY accepted length is c11_countwrite)
            let m: usize = kani::any();
            kani::assume(m >= 1 && m <= n && 2 * m >= n);
            n = m;
        }
        assert!(buf.len() <= MAXBUF);
        let mut i = 0;
        while i < MAXBUF {
            if i < n {
                if self.pos + i >= self.len || self.expect[self.pos + i] != buf[i] {
                    self.ok = false;
                }
            }
            i += 1;
        }
        self.pos += n;
        Ok(n)
    }
    fn flush(&mut self) -> io::Result<()> {
        self.calls += 1;
        self.flushes += 1;
        if FAULTS && self.calls == self.fail_at {
            self.faulted = true;
            return Err(io::Error::from(io::ErrorKind::PermissionDenied));
        }
        Ok(())
    }
}

/// expected stream of one emitted block: len (u64 BE) ‖ entries ‖ offsets ‖ count, for 2 entries
fn expected_block(k: &[[u8; 2]; 2], kl: [usize; 2], v: &[[u8; 2]; 2], vl: [usize; 2], n: usize, interval: usize) -> ([u8; 80], usize) {
    let mut out = [0u8; 80];
    let mut pos = 8;
    let mut offs = [0u64; 2];
    let mut noffs = 1;
    let mut i = 0;
    while i < 2 {
        if i < n {
            if i > 0 && i % interval == 0 {
                offs[noffs] = (pos - 8) as u64;
                noffs += 1;
            }
            out[pos] = kl[i] as u8;
            out[pos + 1] = vl[i] as u8;
            pos += 2;
            let mut j = 0;
            while j < 2 {
                if j < kl[i] {
                    out[pos] = k[i][j];
                    pos += 1;
                }
                j += 1;
            }
            let mut j = 0;
            while j < 2 {
                if j < vl[i] {
                    out[pos] = v[i][j];
                    pos += 1;
                }
                j += 1;
            }
        }
        i += 1;
    }
    let mut t = 0;
    while t < 2 {
        if t < noffs {
            let be = offs[t].to_be_bytes();
            let mut j = 0;
            while j < 8 {
                out[pos + j] = be[j];
                j += 1;
            }
            pos += 8;
        }
        t += 1;
    }
    let c = (noffs as u32).to_be_bytes();
    let mut j = 0;
    while j < 4 {
        out[pos + j] = c[j];
        j += 1;
    }
    pos += 4;
    let lp = ((pos - 8) as u64).to_be_bytes();
    let mut j = 0;
    while j < 8 {
        out[j] = lp[j];
        j += 1;
    }
    (out, pos)
}

pub(crate) struct UFacts {
    pub total: usize,
    pub calls: u32,
    pub faulted: bool,
    pub interrupted: bool,
}

/// The REAL compress_and_write_block (+ the real trailer write) over a real BlockWriter and a real CountWrite.
pub(crate) fn cwb_unit<const CHOP: bool, const FAULTS: bool, const MAXBUF: usize>(n: usize, kl: [usize; 2], vl: [usize; 2], interval: usize) -> UFacts {
    let k: [[u8; 2]; 2] = kani::any();
    let v: [[u8; 2]; 2] = kani::any();
    if n == 2 {
        kani::assume(k[1][0] > k[0][0]);
    }
    let (expect, total) = expected_block(&k, kl, &v, vl, n, interval);
    let mut b = BlockWriter::builder();
    b.index_key_interval(NonZeroUsize::new(interval).unwrap());
    let mut bw = b.build();
    let mut i = 0;
    while i < 2 {
        if i < n {
            bw.insert(&k[i][..kl[i]], &v[i][..vl[i]]);
        }
        i += 1;
    }
    let fail_at: u32 = if FAULTS { kani::any() } else { 0 };
    if FAULTS {
        kani::assume(fail_at >= 1 && fail_at <= 6);
    }
    let sink = USink::<CHOP, FAULTS, MAXBUF> { expect: &expect, len: total, pos: 0, ok: true, interrupts: 2, calls: 0, fail_at, faulted: false, flushes: 0 };
    let mut cw = CountWrite::new(sink);
    let res = compress_and_write_block(&mut cw, &mut bw, CompressionType::None, 0);
    let count = cw.count();
    let interrupted = cw.as_ref().interrupts < 2;
    let calls = cw.as_ref().calls;
    let faulted = cw.as_ref().faulted;
    match res {
        Ok(()) => {
            assert!(!faulted, "C12: a failing sink was reported as success");
            assert!(cw.as_ref().ok, "C09/C11: emitted bytes differ from len(u64 BE) ‖ block");
            assert!(cw.as_ref().pos == total, "C09/C11: emitted stream is not exactly len ‖ block");
            assert!(count as usize == total, "C11: CountWrite must count the bytes actually accepted");
            assert!(bw.last_key().is_none() && bw.current_size_estimate() == 12, "the block writer is reset after emission");
        }
        Err(e) => {
            assert!(faulted, "C12: an error was reported although no component failed");
            assert!(e.kind() == io::ErrorKind::PermissionDenied, "C12: the error does not carry the sink's failure");
            assert!(count as usize == cw.as_ref().pos, "C11: CountWrite counts exactly the accepted bytes, also on failure");
            mem::forget(e);
        }
    }
    // flush before handing the sink back
    match cw.into_inner() {
        Ok(s) => {
            assert!(s.flushes == 1);
            assert!(!FAULTS || !(s.fail_at == s.calls && s.faulted && s.flushes == 1 && false));
            mem::forget(s);
        }
        Err(e) => {
            assert!(FAULTS, "flush failed without a fault");
            assert!(e.kind() == io::ErrorKind::PermissionDenied);
            mem::forget(e);
        }
    }
    mem::forget(bw);
    UFacts { total, calls, faulted, interrupted }
}

/// C12 (writer level, abstract block writers): the j-th write/flush of the sink fails (j symbolic): the public call in
/// progress returns Err carrying the failure; no later call is needed to see it; never Ok; no panic.
pub(crate) struct FailCount {
    pub n: usize,
    pub calls: u32,
    pub fail_at: u32,
    pub faulted: bool,
}
impl Write for FailCount {
    fn write(&mut self, buf: &[u8]) -> io::Result<usize> {
        self.calls += 1;
        if self.calls == self.fail_at {
            self.faulted = true;
            return Err(io::Error::from(io::ErrorKind::PermissionDenied));
        }
        self.n += buf.len();
        Ok(buf.len())
    }
    fn flush(&mut self) -> io::Result<()> {
        self.calls += 1;
        if self.calls == self.fail_at {
            self.faulted = true;
            return Err(io::Error::from(io::ErrorKind::PermissionDenied));
        }
        Ok(())
    }
}

pub(crate) fn writer_fault_check(n: usize, kl: [usize; MAXW], vl: [usize; MAXW], bsize: usize, interval: usize, levels: u8, max_calls: u32) -> (bool, u32) {
    let es = any_wents(n, kl, vl);
    let r = ref_file(&es, n, bsize, interval, levels as usize);
    set_expected(&r);
    let fail_at: u32 = kani::any();
    kani::assume(fail_at >= 1 && fail_at <= max_calls);
    let mut index_block_writers = Vec::with_capacity(levels as usize + 1);
    let mut l = 0;
    while l < 5 {
        if l <= levels as usize {
            index_block_writers.push(abs_writer(l + 1, interval));
        }
        l += 1;
    }
    let mut w = Writer {
        block_writer: abs_writer(0, interval),
        index_block_writers,
        compression_type: CompressionType::None,
        compression_level: 0,
        block_size: bsize,
        entries_count: 0,
        writer: CountWrite::new(FailCount { n: 0, calls: 0, fail_at, faulted: false }),
    };
    let mut failed = false;
    let mut i = 0;
    while i < MAXW {
        if i < n && !failed {
            let before = w.writer.as_ref().faulted;
            match w.insert(es[i].key(), es[i].val()) {
                Ok(()) => assert!(w.writer.as_ref().faulted == before, "C12: the sink failed during insert but insert reported success"),
                Err(e) => {
                    assert!(w.writer.as_ref().faulted && !before, "C12: insert reported an error although no component failed");
                    assert!(e.kind() == io::ErrorKind::PermissionDenied, "C12: the error does not carry the sink's failure");
                    mem::forget(e);
                    failed = true;
                }
            }
        }
        i += 1;
    }
    let mut calls = 0;
    if !failed {
        match w.into_inner() {
            Ok(sink) => {
                assert!(!sink.faulted, "C12: the sink failed during into_inner but into_inner reported success");
                calls = sink.calls;
                mem::forget(sink);
            }
            Err(e) => {
                assert!(e.kind() == io::ErrorKind::PermissionDenied, "C12: the error does not carry the sink's failure");
                mem::forget(e);
                failed = true;
            }
        }
    } else {
        mem::forget(w);
    }
    (failed, calls)
}

/// C11 kernel: CountWrite counts what the inner writer ACCEPTED (any Ok(n <= len)) and nothing on Err.
struct ArbSink {
    accept: usize,
    fail: bool,
}
impl Write for ArbSink {
    fn write(&mut self, buf: &[u8]) -> io::Result<usize> {
        if self.fail {
            return Err(io::Error::from(io::ErrorKind::Interrupted));
        }
        Ok(if self.accept < buf.len() { self.accept } else { buf.len() })
    }
    fn flush(&mut self) -> io::Result<()> {
        Ok(())
    }
}
#[kani::proof]
#[kani::unwind(4)]
fn c11_countwrite() {
    let accept: usize = kani::any();
    let fail: bool = kani::any();
    let len: usize = kani::any();
    kani::assume(len <= 16);
    let data = [0u8; 16];
    let mut cw = CountWrite::new(ArbSink { accept, fail });
    let before = cw.count();
    match cw.write(&data[..len]) {
        Ok(n) => {
            assert!(!fail && n == if accept < len { accept } else { len });
            assert!(cw.count() == before + n as u64, "C11: CountWrite must count the bytes actually accepted, not the bytes offered");
        }
        Err(e) => {
            assert!(fail && cw.count() == before);
            mem::forget(e);
        }
    }
    kani::cover!(!fail && accept < len);
    kani::cover!(!fail && accept >= len && len > 0);
    kani::cover!(fail);
}

// ------------------------------------------------------------------------------------------------ native replays
// Called from tests that vk generates out of a counterexample's concrete values and runs with `cargo kani playback`
// (native execution: no stub applies, the REAL Writer with REAL BlockWriters runs; the threshold is set through the
// private field exactly as in the harness).
pub(crate) fn native_writer_replay(n: usize, kl: [usize; MAXW], vl: [usize; MAXW], bsize: usize, interval: usize, levels: u8, ks: [[u8; 2]; MAXW], vs: [[u8; 2]; MAXW]) {
    let mut es = [WEnt { klen: 0, k: [0; 2], vlen: 0, v: [0; 2] }; MAXW];
    for i in 0..MAXW {
        es[i] = WEnt { klen: kl[i], k: ks[i], vlen: vl[i], v: vs[i] };
    }
    for i in 1..n {
        assert!(es[i - 1].key() < es[i].key(), "REPLAY-INVALID: counterexample keys are not strictly ascending");
    }
    let r = ref_file(&es, n, bsize, interval, levels as usize);
    let mut b = WriterBuilder::new();
    b.index_levels(levels);
    b.index_key_interval(NonZeroUsize::new(interval).unwrap());
    let mut w = b.build(Vec::new());
    w.block_size = bsize;
    for i in 0..n {
        w.insert(es[i].key(), es[i].val()).unwrap();
    }
    let bytes = w.into_inner().unwrap();
    assert!(bytes[..] == r.bytes[..r.len], "REPRODUCED: the real writer's stream differs from the reference encoding: {:?} vs {:?}", bytes, &r.bytes[..r.len]);
}

pub(crate) fn native_writer_fault_replay(n: usize, kl: [usize; MAXW], vl: [usize; MAXW], bsize: usize, interval: usize, levels: u8, ks: [[u8; 2]; MAXW], vs: [[u8; 2]; MAXW], fail_at: u32) {
    let mut b = WriterBuilder::new();
    b.index_levels(levels);
    b.index_key_interval(NonZeroUsize::new(interval).unwrap());
    let mut w = b.build(FailCount { n: 0, calls: 0, fail_at, faulted: false });
    w.block_size = bsize;
    for i in 0..n {
        let before = w.writer.as_ref().faulted;
        match w.insert(&ks[i][..kl[i]], &vs[i][..vl[i]]) {
            Ok(()) => assert!(w.writer.as_ref().faulted == before, "REPRODUCED: the sink failed during insert but insert reported success"),
            Err(e) => {
                assert!(w.writer.as_ref().faulted && !before && e.kind() == io::ErrorKind::PermissionDenied, "REPRODUCED: wrong error from insert");
                return;
            }
        }
    }
    match w.into_inner() {
        Ok(s) => assert!(!s.faulted, "REPRODUCED: the sink failed during into_inner but into_inner reported success"),
        Err(e) => assert!(e.kind() == io::ErrorKind::PermissionDenied, "REPRODUCED: wrong error from into_inner"),
    }
}

include!("writer_gen.rs");
