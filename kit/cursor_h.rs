// L3: the real cursor glue (ReaderCursor + IndexBlockCursor) executed over abstract blocks (ac_model.rs).
// Child module of crate::reader::reader_cursor: sees IndexBlockCursor and the private fields of
// ReaderCursor / Reader.
#![allow(dead_code)]
use std::io;
use std::mem;

use super::*;
use crate::block::verif_ac::*;
use crate::block::{Block, BlockCursor};
use crate::metadata::{FileVersion, Metadata};

pub(crate) type Cur = ReaderCursor<ModelFile>;

#[derive(Clone, Copy)]
pub(crate) struct Layout {
    pub id: u8,
    pub root: usize,
    pub levels: u8,
    pub n: usize,
}

include!("layout_gen.rs");

pub(crate) fn open(l: &Layout, version: FileVersion) -> Cur {
    let reader = Reader {
        metadata: Metadata {
            file_version: version,
            index_block_offset: l.root as u64,
            compression_type: CompressionType::None,
            entries_count: l.n as u64,
            index_levels: l.levels,
        },
        reader: ModelFile { pos: 0 },
    };
    match reader.into_cursor() {
        Ok(c) => c,
        Err(e) => {
            mem::forget(e);
            panic!("into_cursor failed");
        }
    }
}

fn same_key(k: &[u8], i: usize) -> bool {
    let e = key_of(i);
    if k.len() != e.len() {
        return false;
    }
    let mut j = 0;
    while j < KL {
        if j < k.len() && k[j] != e[j] {
            return false;
        }
        j += 1;
    }
    true
}

/// Decode a cursor result into the index of the returned entry, checking that key and value belong
/// to the same stored entry. Err => Err(()).
pub(crate) fn eidx(r: crate::Result<Option<(&[u8], &[u8])>>, n: usize) -> Result<Option<usize>, ()> {
    match r {
        Ok(Some((k, v))) => {
            assert!(v.len() == 1, "a data entry's value was expected");
            let i = v[0].wrapping_sub(VAL_TAG) as usize;
            assert!(i < n, "value does not belong to any stored entry");
            assert!(same_key(k, i), "key and value come from different entries");
            Ok(Some(i))
        }
        Ok(None) => Ok(None),
        Err(e) => {
            mem::forget(e);
            Err(())
        }
    }
}

pub(crate) fn eidx_plain(r: Option<(&[u8], &[u8])>, n: usize) -> Option<usize> {
    match r {
        Some((k, v)) => {
            assert!(v.len() == 1);
            let i = v[0].wrapping_sub(VAL_TAG) as usize;
            assert!(i < n);
            assert!(same_key(k, i));
            Some(i)
        }
        None => None,
    }
}

// ---- specification over the sorted entry table
pub(crate) fn ceiling(q: u32, n: usize) -> Option<usize> {
    let mut c = None;
    let mut i = MAXE;
    while i > 0 {
        i -= 1;
        if i < n && rank(key_of(i)) >= q {
            c = Some(i);
        }
    }
    c
}
pub(crate) fn floor(q: u32, n: usize) -> Option<usize> {
    let mut f = None;
    let mut i = 0;
    while i < MAXE {
        if i < n && rank(key_of(i)) <= q {
            f = Some(i);
        }
        i += 1;
    }
    f
}
pub(crate) fn exact(q: u32, n: usize) -> Option<usize> {
    match ceiling(q, n) {
        Some(i) if rank(key_of(i)) == q => Some(i),
        _ => None,
    }
}

#[derive(Clone, Copy)]
pub(crate) enum Op {
    First,
    Last,
    Next,
    Prev,
    Ge(u8),
    Le(u8),
    Eq(u8),
    Reset,
    Current,
    /// continue on a clone, the original is discarded
    CloneSwitch,
    /// clone; apply the op to the clone, then to the original: both must give the model's answer
    Fork(u8),
}

pub(crate) const Q_SYM: u8 = 100; // the harness's symbolic probe

#[derive(Clone, Copy)]
pub(crate) struct Probe {
    pub b: [u8; 3],
    pub len: usize,
}

pub(crate) fn any_probe(maxlen: usize) -> Probe {
    let p = Probe { b: kani::any(), len: kani::any() };
    kani::assume(p.len <= maxlen);
    p
}

/// probe_max >= 10 encodes an exact length (probe_max - 10): used where the byte-string classes are covered by a
/// kernel and the glue harness only needs the order relation (keeps heap objects of concrete size).
pub(crate) fn any_probe_spec(spec: usize) -> Probe {
    if spec >= 10 {
        let p = Probe { b: kani::any(), len: spec - 10 };
        p
    } else {
        any_probe(spec)
    }
}

/// Logical position model of C03.
#[derive(Clone, Copy)]
pub(crate) struct Model {
    pub n: usize,
    pub pos: Option<usize>,
    /// false after an operation returned None: relative moves are then unspecified
    pub valid: bool,
}

fn probe_bytes<'a>(sel: u8, sym: &'a Probe, buf: &'a mut [u8; 3]) -> &'a [u8] {
    if sel == Q_SYM {
        &sym.b[..sym.len]
    } else {
        let k = key_of(sel as usize);
        let mut j = 0;
        while j < KL {
            if j < k.len() {
                buf[j] = k[j];
            }
            j += 1;
        }
        &buf[..k.len()]
    }
}

/// Simple (non-forking) operation codes for Fork.
pub(crate) const F_FIRST: u8 = 0;
pub(crate) const F_LAST: u8 = 1;
pub(crate) const F_NEXT: u8 = 2;
pub(crate) const F_PREV: u8 = 3;
pub(crate) const F_CURRENT: u8 = 4;

fn simple(code: u8) -> Op {
    match code {
        F_FIRST => Op::First,
        F_LAST => Op::Last,
        F_NEXT => Op::Next,
        F_PREV => Op::Prev,
        _ => Op::Current,
    }
}

/// Apply one operation to the real cursor and to the model; assert they agree; assert C16's bound.
pub(crate) fn apply(c: &mut Cur, m: &mut Model, op: Op, sym: &Probe, levels: u8) {
    let n = m.n;
    let loads0 = t().loads;
    let mut buf = [0u8; 3];
    let (got, expect): (Result<Option<usize>, ()>, Option<usize>) = match op {
        Op::First => (eidx(c.move_on_first(), n), if n > 0 { Some(0) } else { None }),
        Op::Last => (eidx(c.move_on_last(), n), if n > 0 { Some(n - 1) } else { None }),
        Op::Next => {
            if !m.valid {
                kani::assume(false);
            }
            let e = match m.pos {
                None => {
                    if n > 0 {
                        Some(0)
                    } else {
                        None
                    }
                }
                Some(i) => {
                    if i + 1 < n {
                        Some(i + 1)
                    } else {
                        None
                    }
                }
            };
            (eidx(c.move_on_next(), n), e)
        }
        Op::Prev => {
            if !m.valid {
                kani::assume(false);
            }
            let e = match m.pos {
                None => {
                    if n > 0 {
                        Some(n - 1)
                    } else {
                        None
                    }
                }
                Some(i) => {
                    if i > 0 {
                        Some(i - 1)
                    } else {
                        None
                    }
                }
            };
            (eidx(c.move_on_prev(), n), e)
        }
        Op::Ge(sel) => {
            let q = probe_bytes(sel, sym, &mut buf);
            let e = ceiling(rank(q), n);
            (eidx(c.move_on_key_greater_than_or_equal_to(q), n), e)
        }
        Op::Le(sel) => {
            let q = probe_bytes(sel, sym, &mut buf);
            let e = floor(rank(q), n);
            (eidx(c.move_on_key_lower_than_or_equal_to(q), n), e)
        }
        Op::Eq(sel) => {
            let q = probe_bytes(sel, sym, &mut buf);
            let e = exact(rank(q), n);
            (eidx(c.move_on_key_equal_to(q), n), e)
        }
        Op::Reset => {
            c.reset();
            m.pos = None;
            m.valid = true;
            return;
        }
        Op::Current => {
            if m.valid {
                let got = eidx_plain(c.current(), n);
                assert!(got == m.pos, "C03: current() differs from the last returned entry");
            }
            return;
        }
        Op::CloneSwitch | Op::Fork(_) => return, // handled by the interpreter
    };
    match got {
        Ok(g) => assert!(g == expect, "cursor operation returned a different entry than the sorted content determines"),
        Err(()) => panic!("cursor operation failed although no I/O fault was injected"),
    }
    match expect {
        Some(i) => {
            m.pos = Some(i);
            m.valid = true;
        }
        None => m.valid = false,
    }
    // C16: block loads per operation bounded by the index depth; every load preceded by one absolute seek
    let loads = t().loads - loads0;
    assert!(loads <= 2 * (levels as u32 + 2), "C16: more than 2 x (levels + 2) block loads in one operation");
    assert!(t().protocol_ok, "C16: block load not preceded by exactly one absolute seek");
}

/// Run a concrete operation schema (symbolic keys, one symbolic probe) on a fresh cursor.
pub(crate) fn run_schema(layout: u8, ops: &[Op], minlen: usize, maxlen: usize, probe_max: usize) -> (u32, bool) {
    reset_tables();
    let l = build_layout(layout, minlen, maxlen);
    let sym = any_probe(probe_max);
    let mut c = open(&l, FileVersion::FormatV2);
    let mut m = Model { n: l.n, pos: None, valid: true };
    let mut i = 0;
    while i < ops.len() {
        match ops[i] {
            Op::CloneSwitch => {
                let c2 = c.clone();
                mem::forget(mem::replace(&mut c, c2));
            }
            Op::Fork(code) => {
                let mut c2 = c.clone();
                let mut m2 = m;
                apply(&mut c2, &mut m2, simple(code), &sym, l.levels);
                // the original is unaffected by what its clone did
                apply(&mut c, &mut m, simple(code), &sym, l.levels);
                mem::forget(c2);
            }
            op => apply(&mut c, &mut m, op, &sym, l.levels),
        }
        i += 1;
    }
    let qr = rank(&sym.b[..sym.len]);
    mem::forget(c);
    (qr, m.valid)
}

/// C12 (read side): the k-th seek/load of the source fails (k and the error kind symbolic). The public call in
/// progress must return Err(Error::Io(kind)); calls before it behave as without a fault; never Ok for the faulted call;
/// no Err without a fault; no panic.
pub(crate) fn run_schema_faults(layout: u8, ops: &[Op], max_io: u32) -> (bool, u32) {
    reset_tables();
    let l = build_layout(layout, 1, 1);
    let sym = any_probe(2);
    let fail_at: u32 = kani::any();
    kani::assume(fail_at >= 1 && fail_at <= max_io);
    let kind: u8 = kani::any();
    kani::assume(kind <= 3);
    set_fault(fail_at, kind);
    let mut c = open(&l, FileVersion::FormatV2);
    let mut m = Model { n: l.n, pos: None, valid: true };
    let n = l.n;
    let mut failed = false;
    let mut i = 0;
    while i < ops.len() {
        if !failed {
            let before = t().faulted;
            let mut buf = [0u8; 3];
            let (res, expect): (crate::Result<Option<(&[u8], &[u8])>>, Option<usize>) = match ops[i] {
                Op::First => (c.move_on_first(), if n > 0 { Some(0) } else { None }),
                Op::Last => (c.move_on_last(), if n > 0 { Some(n - 1) } else { None }),
                Op::Next => (c.move_on_next(), match m.pos { None => if n > 0 { Some(0) } else { None }, Some(p) => if p + 1 < n { Some(p + 1) } else { None } }),
                Op::Prev => (c.move_on_prev(), match m.pos { None => if n > 0 { Some(n - 1) } else { None }, Some(p) => if p > 0 { Some(p - 1) } else { None } }),
                Op::Ge(sel) => {
                    let q = probe_bytes(sel, &sym, &mut buf);
                    let e = ceiling(rank(q), n);
                    (c.move_on_key_greater_than_or_equal_to(q), e)
                }
                Op::Le(sel) => {
                    let q = probe_bytes(sel, &sym, &mut buf);
                    let e = floor(rank(q), n);
                    (c.move_on_key_lower_than_or_equal_to(q), e)
                }
                _ => (Ok(None), None),
            };
            match res {
                Ok(r) => {
                    assert!(t().faulted == before, "C12: the source failed during the call but the call reported success");
                    let got = eidx_plain(r, n);
                    assert!(got == expect, "result changed although no fault happened yet");
                    m.pos = expect;
                    if expect.is_none() {
                        failed = true; // relative moves after None are unspecified: stop the schema here
                    }
                }
                Err(e) => {
                    assert!(t().faulted && !before, "C12: an error was reported although no component failed");
                    match &e {
                        Error::Io(ioe) => {
                            let k = match kind {
                                0 => io::ErrorKind::Other,
                                1 => io::ErrorKind::UnexpectedEof,
                                2 => io::ErrorKind::PermissionDenied,
                                _ => io::ErrorKind::BrokenPipe,
                            };
                            assert!(ioe.kind() == k, "C12: the I/O error does not carry the source's failure");
                        }
                        _ => panic!("C12: a source failure must surface as an I/O error"),
                    }
                    mem::forget(e);
                    failed = true;
                }
            }
        }
        i += 1;
    }
    let io_calls = t().io_calls;
    let f = t().faulted;
    mem::forget(c);
    (f, io_calls)
}

// ------------------------------------------------------------------------------------------------ S-form
// Symbolic pre-states built directly from a few symbolic integers (no path merging), so that ONE operation
// from EVERY state satisfying the representation invariant is one solver query. Histories of any length
// are covered by induction: base = fresh cursor (schema harnesses), step = these harnesses.
//
// RI-strong(i): the cursor is positioned on entry i: level l holds the block on the path to i, positioned on
//   the child leading to i; the data block holds i at its position; every recorded offset is either the
//   offset its block was loaded from or is not the offset of any block of that level.
// RI-weak: only the clause on recorded offsets (positions and blocks arbitrary) - what absolute moves need.

fn not_a_block_of_level(layout: u8, lvl: usize, r: usize) -> bool {
    let (cnt, blks) = level_blocks(layout, lvl);
    let mut j = 0;
    while j < 8 {
        if j < cnt && blks[j] == r {
            return false;
        }
        j += 1;
    }
    true
}

fn any_recorded(layout: u8, lvl: usize, loaded: usize) -> u64 {
    if kani::any() {
        loaded as u64
    } else {
        let r: usize = kani::any();
        kani::assume(r < MAXB);
        kani::assume(not_a_block_of_level(layout, lvl, r));
        r as u64
    }
}

fn mk_reader_cursor(l: &Layout, inner: Option<Vec<(u64, BlockCursor<Block>)>>, data: Option<BlockCursor<Block>>, version: FileVersion) -> Cur {
    let pos: u64 = kani::any();
    ReaderCursor {
        index_block_cursor: IndexBlockCursor {
            base_block_offset: l.root as u64,
            compression_type: CompressionType::None,
            index_levels: l.levels,
            inner,
        },
        current_cursor: data,
        reader: Reader {
            metadata: Metadata {
                file_version: version,
                index_block_offset: l.root as u64,
                compression_type: CompressionType::None,
                entries_count: l.n as u64,
                index_levels: l.levels,
            },
            reader: ModelFile { pos },
        },
    }
}

/// A cursor in RI-strong(i).
pub(crate) fn strong_state(l: &Layout, i: usize, version: FileVersion) -> Cur {
    let depth = l.levels as usize + 1;
    let mut inner = Vec::with_capacity(depth);
    let mut lvl = 0;
    while lvl < MAXDEPTH {
        if lvl < depth {
            let (b, p) = path_of(l.id, i, lvl);
            inner.push((any_recorded(l.id, lvl, b), make_cursor(b, Some(p))));
        }
        lvl += 1;
    }
    let (d, pd) = path_of(l.id, i, depth);
    mk_reader_cursor(l, Some(inner), Some(make_cursor(d, Some(pd))), version)
}

fn any_block_of_level(layout: u8, lvl: usize) -> usize {
    let (cnt, blks) = level_blocks(layout, lvl);
    let k: usize = kani::any();
    kani::assume(k < cnt);
    blks[k]
}

fn any_pos_in(b: usize) -> Pos {
    if kani::any() {
        None
    } else {
        let j: usize = kani::any();
        kani::assume(j <= block_count(b));
        Some(j)
    }
}

/// A cursor in RI-weak: fresh, or any block of the right level at each level with any position.
pub(crate) fn weak_state(l: &Layout, version: FileVersion) -> Cur {
    let depth = l.levels as usize + 1;
    let data = if kani::any() {
        None
    } else {
        let d = any_block_of_level(l.id, depth);
        Some(make_cursor(d, any_pos_in(d)))
    };
    if kani::any() {
        return mk_reader_cursor(l, None, data, version);
    }
    let mut inner = Vec::with_capacity(depth);
    let mut lvl = 0;
    while lvl < MAXDEPTH {
        if lvl < depth {
            let b = any_block_of_level(l.id, lvl);
            inner.push((any_recorded(l.id, lvl, b), make_cursor(b, any_pos_in(b))));
        }
        lvl += 1;
    }
    mk_reader_cursor(l, Some(inner), data, version)
}

/// The recorded-offset clause (RI-weak) on the actual state.
pub(crate) fn check_weak(c: &Cur, l: &Layout) {
    if let Some(inner) = &c.index_block_cursor.inner {
        assert!(inner.len() == l.levels as usize + 1, "RI: one loaded block per index level");
        let mut lvl = 0;
        while lvl < MAXDEPTH {
            if lvl < inner.len() {
                let (r, cur) = &inner[lvl];
                let b = cursor_block(cur);
                assert!(*r as usize == b || not_a_block_of_level(l.id, lvl, *r as usize),
                    "RI: a level's recorded offset names another block of that level than the one loaded (stale offset)");
            }
            lvl += 1;
        }
    }
}

/// RI-strong(i) on the actual state.
pub(crate) fn check_strong(c: &Cur, l: &Layout, i: usize) {
    let depth = l.levels as usize + 1;
    match &c.index_block_cursor.inner {
        Some(inner) => {
            assert!(inner.len() == depth, "RI: one loaded block per index level");
            let mut lvl = 0;
            while lvl < MAXDEPTH {
                if lvl < depth {
                    let (r, cur) = &inner[lvl];
                    let (b, p) = path_of(l.id, i, lvl);
                    assert!(cursor_block(cur) == b, "RI: index level holds a block that is not on the path to the current entry");
                    assert!(cursor_pos(cur) == Some(p), "RI: index level is not positioned on the child leading to the current entry");
                    assert!(*r as usize == b || not_a_block_of_level(l.id, lvl, *r as usize),
                        "RI: a level's recorded offset names another block of that level than the one loaded (stale offset)");
                }
                lvl += 1;
            }
        }
        None => panic!("RI: positioned cursor without loaded index blocks"),
    }
    match &c.current_cursor {
        Some(cur) => {
            let (d, pd) = path_of(l.id, i, depth);
            assert!(cursor_block(cur) == d, "RI: data block loaded is not the one holding the current entry");
            assert!(cursor_pos(cur) == Some(pd), "RI: data block position is not the current entry");
        }
        None => panic!("RI: positioned cursor without a data block"),
    }
}

pub(crate) const S_FIRST: u8 = 0;
pub(crate) const S_LAST: u8 = 1;
pub(crate) const S_GE: u8 = 2;
pub(crate) const S_LE: u8 = 3;
pub(crate) const S_EQ: u8 = 4;
pub(crate) const S_NEXT: u8 = 5;
pub(crate) const S_PREV: u8 = 6;
pub(crate) const S_CURRENT: u8 = 7;
pub(crate) const S_CLONE_NEXT: u8 = 8;
pub(crate) const S_CLONE_PREV: u8 = 9;

pub(crate) struct StepFacts {
    pub fresh: bool,
    pub n: usize,
    pub i: usize,
    pub expect: Option<usize>,
    pub qr: u32,
    pub loads: u32,
}

fn c16_check(l: &Layout) -> u32 {
    let loads = t().loads;
    assert!(loads <= 2 * (l.levels as u32 + 2), "C16: more than 2 x (levels + 2) block loads in one operation");
    assert!(t().protocol_ok, "C16: block load not preceded by exactly one absolute seek");
    loads
}

/// One absolute operation from every RI-weak state.
pub(crate) fn step_abs(layout: u8, op: u8, minlen: usize, maxlen: usize, probe_max: usize, weak: bool) -> StepFacts {
    reset_tables();
    let l = build_layout(layout, minlen, maxlen);
    let sym = any_probe(probe_max);
    let q = &sym.b[..sym.len];
    let qr = rank(q);
    let version = if kani::any() { FileVersion::FormatV1 } else { FileVersion::FormatV2 };
    // weak: every RI-weak state; otherwise the states an operation that returned an entry leaves (RI-strong) or fresh
    let mut c = if weak {
        weak_state(&l, version)
    } else if l.n == 0 || kani::any() {
        mk_reader_cursor(&l, None, None, version)
    } else {
        let i0: usize = kani::any();
        kani::assume(i0 < l.n);
        strong_state(&l, i0, version)
    };
    let fresh = c.index_block_cursor.inner.is_none();
    let n = l.n;
    let (got, expect) = match op {
        S_FIRST => (eidx(c.move_on_first(), n), if n > 0 { Some(0) } else { None }),
        S_LAST => (eidx(c.move_on_last(), n), if n > 0 { Some(n - 1) } else { None }),
        S_GE => (eidx(c.move_on_key_greater_than_or_equal_to(q), n), ceiling(qr, n)),
        S_LE => (eidx(c.move_on_key_lower_than_or_equal_to(q), n), floor(qr, n)),
        _ => (eidx(c.move_on_key_equal_to(q), n), exact(qr, n)),
    };
    match got {
        Ok(g) => assert!(g == expect, "absolute cursor move returned a different entry than the sorted content determines (history dependence)"),
        Err(()) => panic!("cursor operation failed although no I/O fault was injected"),
    }
    match expect {
        Some(i) => check_strong(&c, &l, i),
        None => check_weak(&c, &l),
    }
    let loads = c16_check(&l);
    mem::forget(c);
    StepFacts { fresh, n, i: 0, expect, qr, loads }
}

/// next / prev from every RI-strong state.
pub(crate) fn step_move(layout: u8, forward: bool, minlen: usize, maxlen: usize) -> StepFacts {
    reset_tables();
    let l = build_layout(layout, minlen, maxlen);
    let n = l.n;
    let i: usize = kani::any();
    kani::assume(i < n);
    let version = if kani::any() { FileVersion::FormatV1 } else { FileVersion::FormatV2 };
    let mut c = strong_state(&l, i, version);
    let expect = if forward { if i + 1 < n { Some(i + 1) } else { None } } else if i > 0 { Some(i - 1) } else { None };
    let got = if forward { eidx(c.move_on_next(), n) } else { eidx(c.move_on_prev(), n) };
    match got {
        Ok(g) => assert!(g == expect, "relative cursor move did not return the adjacent entry"),
        Err(()) => panic!("cursor operation failed although no I/O fault was injected"),
    }
    if let Some(j) = expect {
        check_strong(&c, &l, j);
    }
    let loads = c16_check(&l);
    mem::forget(c);
    StepFacts { fresh: false, n, i, expect, qr: 0, loads }
}

/// C12: next / prev from every RI-strong state while the k-th seek/load of the source fails (k, kind symbolic).
pub(crate) fn step_move_faults(layout: u8, forward: bool, max_io: u32) -> (bool, u32) {
    reset_tables();
    let l = build_layout(layout, 1, 1);
    let n = l.n;
    let i: usize = kani::any();
    kani::assume(i < n);
    let fail_at: u32 = kani::any();
    kani::assume(fail_at >= 1 && fail_at <= max_io);
    let kind: u8 = kani::any();
    kani::assume(kind <= 3);
    set_fault(fail_at, kind);
    let mut c = strong_state(&l, i, FileVersion::FormatV2);
    let expect = if forward { if i + 1 < n { Some(i + 1) } else { None } } else if i > 0 { Some(i - 1) } else { None };
    let res = if forward { c.move_on_next() } else { c.move_on_prev() };
    match res {
        Ok(r) => {
            assert!(!t().faulted, "C12: the source failed during the move but the move reported success");
            assert!(eidx_plain(r, n) == expect, "relative move did not return the adjacent entry");
        }
        Err(e) => {
            assert!(t().faulted, "C12: an error was reported although no component failed");
            match &e {
                Error::Io(ioe) => {
                    let k = match kind {
                        0 => io::ErrorKind::Other,
                        1 => io::ErrorKind::UnexpectedEof,
                        2 => io::ErrorKind::PermissionDenied,
                        _ => io::ErrorKind::BrokenPipe,
                    };
                    assert!(ioe.kind() == k, "C12: the I/O error does not carry the source's failure");
                }
                _ => panic!("C12: a source failure must surface as an I/O error"),
            }
            mem::forget(e);
        }
    }
    let f = t().faulted;
    let io = t().io_calls;
    mem::forget(c);
    (f, io)
}

/// current() from every RI-strong state.
pub(crate) fn step_current(layout: u8, minlen: usize, maxlen: usize) -> StepFacts {
    reset_tables();
    let l = build_layout(layout, minlen, maxlen);
    let n = l.n;
    let i: usize = kani::any();
    kani::assume(i < n);
    let c = strong_state(&l, i, FileVersion::FormatV2);
    assert!(eidx_plain(c.current(), n) == Some(i), "C03: current() is not the entry the cursor is positioned on");
    mem::forget(c);
    StepFacts { fresh: false, n, i, expect: Some(i), qr: 0, loads: 0 }
}

/// clone from every RI-strong state, then move the clone: it continues from the same position, the
/// original is unaffected.
pub(crate) fn step_clone(layout: u8, forward: bool, minlen: usize, maxlen: usize) -> StepFacts {
    reset_tables();
    let l = build_layout(layout, minlen, maxlen);
    let n = l.n;
    let i: usize = kani::any();
    kani::assume(i < n);
    let c = strong_state(&l, i, FileVersion::FormatV2);
    let mut c2 = c.clone();
    check_strong(&c2, &l, i);
    let expect = if forward { if i + 1 < n { Some(i + 1) } else { None } } else if i > 0 { Some(i - 1) } else { None };
    let got = if forward { eidx(c2.move_on_next(), n) } else { eidx(c2.move_on_prev(), n) };
    match got {
        Ok(g) => assert!(g == expect, "C03: a clone did not continue from the position of its original"),
        Err(()) => panic!("cursor operation failed although no I/O fault was injected"),
    }
    if let Some(j) = expect {
        check_strong(&c2, &l, j);
    }
    check_strong(&c, &l, i);
    assert!(eidx_plain(c.current(), n) == Some(i), "C03: moving a clone changed its original");
    let loads = c16_check(&l);
    mem::forget(c2);
    mem::forget(c);
    StepFacts { fresh: false, n, i, expect, qr: 0, loads }
}

// ------------------------------------------------------------------------------------------------ contracts
// The >= seek and the <= seek replaced by their *contracts* (what the seek harnesses prove about the real
// methods): result = ceiling / floor of the probe over the sorted content; on Some(i) the cursor is left in
// SOME state satisfying RI-strong(i), on None in SOME RI-weak state. Used to split multi-step public calls at
// the crate's own seams (<= seek = >= seek + one relative step; iterators = seek + steps), because a second
// symbolic operation on the merged post-state of a real symbolic seek exhausts the solver's memory.
pub(crate) static mut CL_ID: usize = 0x5EED_00C0;
pub(crate) static mut CL_ROOT: usize = 0x5EED_00C1;
pub(crate) static mut CL_LEVELS: usize = 0x5EED_00C3;
pub(crate) static mut CL_N: usize = 0x5EED_00C2;

fn contract_layout() -> Layout {
    unsafe { Layout { id: CL_ID as u8, root: CL_ROOT, levels: CL_LEVELS as u8, n: CL_N } }
}

pub(crate) static mut CONTRACT_WEAK: u8 = 0xC5;

pub(crate) fn set_contract_layout(l: &Layout) {
    unsafe {
        CL_ID = l.id as usize;
        CL_ROOT = l.root;
        CL_LEVELS = l.levels as usize;
        CL_N = l.n;
        CONTRACT_WEAK = 0;
    }
}
pub(crate) fn set_contract_weak(w: bool) {
    unsafe {
        CONTRACT_WEAK = w as u8;
    }
}

/// The state a seek that found nothing leaves when it was issued on a fresh cursor or on one positioned by an
/// operation that returned an entry: unchanged, except that the root level is exhausted.
fn after_none_state(l: &Layout, version: FileVersion) -> Cur {
    if l.n == 0 || kani::any() {
        return mk_reader_cursor(l, None, None, version);
    }
    let j: usize = kani::any();
    kani::assume(j < l.n);
    let mut c = strong_state(l, j, version);
    if let Some(inner) = c.index_block_cursor.inner.as_mut() {
        let root_count = block_count(l.root);
        let cur = make_cursor(l.root, Some(root_count));
        mem::forget(mem::replace(&mut inner[0].1, cur));
    }
    c
}

/// which = 0: the seek found an entry (assumed): cursor := some RI-strong(target) state
/// which = 1: it found nothing (assumed): cursor := fresh, or RI-strong with the root exhausted
/// which = 2: found nothing, cursor := any RI-weak state
/// One outcome per stub on purpose: building both and merging them is what exhausts the solver's memory; the
/// harnesses split the probe space into the matching classes (`kani::assume`), so together they cover it.
fn contract_result<R>(c: &mut ReaderCursor<R>, target: Option<usize>, which: u8) -> crate::Result<Option<(&'static [u8], &'static [u8])>> {
    let l = contract_layout();
    // the harnesses instantiate R = ModelFile only
    let c: &mut Cur = unsafe { &mut *(c as *mut ReaderCursor<R> as *mut Cur) };
    let version = c.reader.metadata.file_version;
    if which == 0 {
        kani::assume(target.is_some());
        let i = match target {
            Some(i) => i,
            None => 0,
        };
        let new = strong_state(&l, i, version);
        mem::forget(mem::replace(c, new));
        let (d, pd) = path_of(l.id, i, l.levels as usize + 1);
        Ok(Some(ac_entry(d, pd)))
    } else {
        kani::assume(target.is_none());
        if which == 2 {
            let new = weak_state(&l, version);
            mem::forget(mem::replace(c, new));
        } else if which == 3 {
            // <= seek that finds nothing: over-approximated by "fresh, or positioned on SOME entry with the root exhausted"
            // (the exact state - positioned on the first entry - made CBMC report a spurious failure in c05_revprefix_firstcnone)
            let new = after_none_state(&l, version);
            mem::forget(mem::replace(c, new));
        } else {
            // >= seek that finds nothing: the cursor is as before the call, except that the root level is exhausted
            if let Some(inner) = c.index_block_cursor.inner.as_mut() {
                let cur = make_cursor(l.root, Some(block_count(l.root)));
                mem::forget(mem::replace(&mut inner[0].1, cur));
            }
        }
        Ok(None)
    }
}

// (inherent methods, so that their generics (impl-level R, method-level A) line up with the methods they replace)
impl<R: io::Read + io::Seek> ReaderCursor<R> {
    pub(crate) fn ge_contract_some<A: AsRef<[u8]>>(&mut self, key: A) -> crate::Result<Option<(&[u8], &[u8])>> {
        let n = unsafe { CL_N };
        contract_result(self, ceiling(rank(key.as_ref()), n), 0)
    }
    pub(crate) fn ge_contract_none<A: AsRef<[u8]>>(&mut self, key: A) -> crate::Result<Option<(&[u8], &[u8])>> {
        let n = unsafe { CL_N };
        contract_result(self, ceiling(rank(key.as_ref()), n), 1)
    }
    pub(crate) fn ge_contract_none_weak<A: AsRef<[u8]>>(&mut self, key: A) -> crate::Result<Option<(&[u8], &[u8])>> {
        let n = unsafe { CL_N };
        contract_result(self, ceiling(rank(key.as_ref()), n), 2)
    }
    pub(crate) fn le_contract_some<A: AsRef<[u8]>>(&mut self, target_key: A) -> crate::Result<Option<(&[u8], &[u8])>> {
        let n = unsafe { CL_N };
        contract_result(self, floor(rank(target_key.as_ref()), n), 0)
    }
    pub(crate) fn le_contract_none<A: AsRef<[u8]>>(&mut self, target_key: A) -> crate::Result<Option<(&[u8], &[u8])>> {
        let n = unsafe { CL_N };
        contract_result(self, floor(rank(target_key.as_ref()), n), 3)
    }
}

/// <= seek (real) over the contract of the >= seek, symbolic probe restricted to one of the three outcome
/// classes of the >= seek (class 0: exact hit, 1: ceiling above the probe -> step back, 2: no ceiling -> last).
pub(crate) fn le_split(layout: u8, class: u8, weak: bool, minlen: usize, maxlen: usize, probe_spec: usize) -> StepFacts {
    reset_tables();
    let l = build_layout(layout, minlen, maxlen);
    set_contract_layout(&l);
    let _ = weak;
    let sym = any_probe_spec(probe_spec);
    let q = &sym.b[..sym.len];
    let qr = rank(q);
    let n = l.n;
    match class {
        0 => kani::assume(exact(qr, n).is_some()),
        1 => kani::assume(ceiling(qr, n).is_some() && exact(qr, n).is_none()),
        _ => kani::assume(ceiling(qr, n).is_none()),
    }
    let version = if kani::any() { FileVersion::FormatV1 } else { FileVersion::FormatV2 };
    // state before the call: fresh, or positioned by an operation that returned an entry (the >= contract replaces it
    // when it finds an entry and only exhausts the root level when it does not)
    let mut c = if class < 2 || l.n == 0 || kani::any() {
        mk_reader_cursor(&l, None, None, version)
    } else {
        let j: usize = kani::any();
        kani::assume(j < l.n);
        strong_state(&l, j, version)
    };
    let expect = floor(qr, n);
    match eidx(c.move_on_key_lower_than_or_equal_to(q), n) {
        Ok(g) => assert!(g == expect, "C02: the <= seek did not return the floor of the probe"),
        Err(()) => panic!("cursor operation failed although no I/O fault was injected"),
    }
    match expect {
        Some(i) => check_strong(&c, &l, i),
        None => check_weak(&c, &l),
    }
    let loads = c16_check(&l);
    mem::forget(c);
    StepFacts { fresh: false, n, i: 0, expect, qr, loads }
}

macro_rules! glue_harness {
    ($name:ident, $unwind:expr, $body:block) => {
        #[kani::proof]
        #[kani::unwind($unwind)]
        #[kani::stub(crate::block::Block::new, crate::block::verif_ac::ac_block_new)]
        #[kani::stub(crate::block::Block::read_from, crate::block::verif_ac::ac_block_read_from)]
        #[kani::stub(crate::block::BlockCursor::current, crate::block::verif_ac::ac_current)]
        #[kani::stub(crate::block::BlockCursor::move_on_first, crate::block::verif_ac::ac_first)]
        #[kani::stub(crate::block::BlockCursor::move_on_last, crate::block::verif_ac::ac_last)]
        #[kani::stub(crate::block::BlockCursor::move_on_next, crate::block::verif_ac::ac_next)]
        #[kani::stub(crate::block::BlockCursor::move_on_prev, crate::block::verif_ac::ac_prev)]
        #[kani::stub(crate::block::BlockCursor::move_on_key_lower_than_or_equal_to, crate::block::verif_ac::ac_le)]
        #[kani::stub(crate::block::BlockCursor::move_on_key_greater_than_or_equal_to, crate::block::verif_ac::ac_ge)]
        fn $name() $body
    };
}
pub(crate) use glue_harness;

/// glue_harness + extra stubs, e.g. [kani::stub(crate::reader::reader_cursor::ReaderCursor::move_on_key_greater_than_or_equal_to,
/// crate::reader::reader_cursor::ReaderCursor::ge_contract_some)]
macro_rules! glue_harness_with {
    ($name:ident, $unwind:expr, [$($extra:meta),*], $body:block) => {
        #[kani::proof]
        #[kani::unwind($unwind)]
        #[kani::stub(crate::block::Block::new, crate::block::verif_ac::ac_block_new)]
        #[kani::stub(crate::block::Block::read_from, crate::block::verif_ac::ac_block_read_from)]
        #[kani::stub(crate::block::BlockCursor::current, crate::block::verif_ac::ac_current)]
        #[kani::stub(crate::block::BlockCursor::move_on_first, crate::block::verif_ac::ac_first)]
        #[kani::stub(crate::block::BlockCursor::move_on_last, crate::block::verif_ac::ac_last)]
        #[kani::stub(crate::block::BlockCursor::move_on_next, crate::block::verif_ac::ac_next)]
        #[kani::stub(crate::block::BlockCursor::move_on_prev, crate::block::verif_ac::ac_prev)]
        #[kani::stub(crate::block::BlockCursor::move_on_key_lower_than_or_equal_to, crate::block::verif_ac::ac_le)]
        #[kani::stub(crate::block::BlockCursor::move_on_key_greater_than_or_equal_to, crate::block::verif_ac::ac_ge)]
        $(#[$extra])*
        fn $name() $body
    };
}
pub(crate) use glue_harness_with;

include!("cursor_gen.rs");
