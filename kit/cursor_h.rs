// L3: the real cursor glue (ReaderCursor + IndexBlockCursor) executed over abstract blocks (ac_model.rs).
// Child module of crate::reader::reader_cursor: sees IndexBlockCursor and the private fields of
// ReaderCursor / Reader.
#![allow(dead_code)]
use std::mem;

use super::*;
use crate::block::verif_ac::*;
use crate::metadata::{FileVersion, Metadata};

pub(crate) type Cur = ReaderCursor<ModelFile>;

#[derive(Clone, Copy)]
pub(crate) struct Layout {
    pub root: usize,
    pub levels: u8,
    pub n: usize,
}

include!("layout_gen.rs");

pub(crate) fn open(l: &Layout, version: FileVersion) -> Cur {
    let reader = Reader {
        metadata: Metadata {
            file_version: version,
            index_block_offset: l.root as u64,
            compression_type: CompressionType::None,
            entries_count: l.n as u64,
            index_levels: l.levels,
        },
        reader: ModelFile { pos: 0 },
    };
    match reader.into_cursor() {
        Ok(c) => c,
        Err(e) => {
            mem::forget(e);
            panic!("into_cursor failed");
        }
    }
}

fn same_key(k: &[u8], i: usize) -> bool {
    let e = key_of(i);
    if k.len() != e.len() {
        return false;
    }
    let mut j = 0;
    while j < KL {
        if j < k.len() && k[j] != e[j] {
            return false;
        }
        j += 1;
    }
    true
}

/// Decode a cursor result into the index of the returned entry, checking that key and value belong
/// to the same stored entry. Err => Err(()).
pub(crate) fn eidx(r: crate::Result<Option<(&[u8], &[u8])>>, n: usize) -> Result<Option<usize>, ()> {
    match r {
        Ok(Some((k, v))) => {
            assert!(v.len() == 1, "a data entry's value was expected");
            let i = v[0].wrapping_sub(VAL_TAG) as usize;
            assert!(i < n, "value does not belong to any stored entry");
            assert!(same_key(k, i), "key and value come from different entries");
            Ok(Some(i))
        }
        Ok(None) => Ok(None),
        Err(e) => {
            mem::forget(e);
            Err(())
        }
    }
}

pub(crate) fn eidx_plain(r: Option<(&[u8], &[u8])>, n: usize) -> Option<usize> {
    match r {
        Some((k, v)) => {
            assert!(v.len() == 1);
            let i = v[0].wrapping_sub(VAL_TAG) as usize;
            assert!(i < n);
            assert!(same_key(k, i));
            Some(i)
        }
        None => None,
    }
}

// ---- specification over the sorted entry table
pub(crate) fn ceiling(q: u32, n: usize) -> Option<usize> {
    let mut c = None;
    let mut i = MAXE;
    while i > 0 {
        i -= 1;
        if i < n && rank(key_of(i)) >= q {
            c = Some(i);
        }
    }
    c
}
pub(crate) fn floor(q: u32, n: usize) -> Option<usize> {
    let mut f = None;
    let mut i = 0;
    while i < MAXE {
        if i < n && rank(key_of(i)) <= q {
            f = Some(i);
        }
        i += 1;
    }
    f
}
pub(crate) fn exact(q: u32, n: usize) -> Option<usize> {
    match ceiling(q, n) {
        Some(i) if rank(key_of(i)) == q => Some(i),
        _ => None,
    }
}

#[derive(Clone, Copy)]
pub(crate) enum Op {
    First,
    Last,
    Next,
    Prev,
    Ge(u8),
    Le(u8),
    Eq(u8),
    Reset,
    Current,
    /// continue on a clone, the original is discarded
    CloneSwitch,
    /// clone; apply the op to the clone, then to the original: both must give the model's answer
    Fork(u8),
}

pub(crate) const Q_SYM: u8 = 100; // the harness's symbolic probe

#[derive(Clone, Copy)]
pub(crate) struct Probe {
    pub b: [u8; 3],
    pub len: usize,
}

pub(crate) fn any_probe(maxlen: usize) -> Probe {
    let p = Probe { b: kani::any(), len: kani::any() };
    kani::assume(p.len <= maxlen);
    p
}

/// Logical position model of C03.
#[derive(Clone, Copy)]
pub(crate) struct Model {
    pub n: usize,
    pub pos: Option<usize>,
    /// false after an operation returned None: relative moves are then unspecified
    pub valid: bool,
}

fn probe_bytes<'a>(sel: u8, sym: &'a Probe, buf: &'a mut [u8; 3]) -> &'a [u8] {
    if sel == Q_SYM {
        &sym.b[..sym.len]
    } else {
        let k = key_of(sel as usize);
        let mut j = 0;
        while j < KL {
            if j < k.len() {
                buf[j] = k[j];
            }
            j += 1;
        }
        &buf[..k.len()]
    }
}

/// Simple (non-forking) operation codes for Fork.
pub(crate) const F_FIRST: u8 = 0;
pub(crate) const F_LAST: u8 = 1;
pub(crate) const F_NEXT: u8 = 2;
pub(crate) const F_PREV: u8 = 3;
pub(crate) const F_CURRENT: u8 = 4;

fn simple(code: u8) -> Op {
    match code {
        F_FIRST => Op::First,
        F_LAST => Op::Last,
        F_NEXT => Op::Next,
        F_PREV => Op::Prev,
        _ => Op::Current,
    }
}

/// Apply one operation to the real cursor and to the model; assert they agree; assert C16's bound.
pub(crate) fn apply(c: &mut Cur, m: &mut Model, op: Op, sym: &Probe, levels: u8) {
    let n = m.n;
    let loads0 = t().loads;
    let mut buf = [0u8; 3];
    let (got, expect): (Result<Option<usize>, ()>, Option<usize>) = match op {
        Op::First => (eidx(c.move_on_first(), n), if n > 0 { Some(0) } else { None }),
        Op::Last => (eidx(c.move_on_last(), n), if n > 0 { Some(n - 1) } else { None }),
        Op::Next => {
            if !m.valid {
                kani::assume(false);
            }
            let e = match m.pos {
                None => {
                    if n > 0 {
                        Some(0)
                    } else {
                        None
                    }
                }
                Some(i) => {
                    if i + 1 < n {
                        Some(i + 1)
                    } else {
                        None
                    }
                }
            };
            (eidx(c.move_on_next(), n), e)
        }
        Op::Prev => {
            if !m.valid {
                kani::assume(false);
            }
            let e = match m.pos {
                None => {
                    if n > 0 {
                        Some(n - 1)
                    } else {
                        None
                    }
                }
                Some(i) => {
                    if i > 0 {
                        Some(i - 1)
                    } else {
                        None
                    }
                }
            };
            (eidx(c.move_on_prev(), n), e)
        }
        Op::Ge(sel) => {
            let q = probe_bytes(sel, sym, &mut buf);
            let e = ceiling(rank(q), n);
            (eidx(c.move_on_key_greater_than_or_equal_to(q), n), e)
        }
        Op::Le(sel) => {
            let q = probe_bytes(sel, sym, &mut buf);
            let e = floor(rank(q), n);
            (eidx(c.move_on_key_lower_than_or_equal_to(q), n), e)
        }
        Op::Eq(sel) => {
            let q = probe_bytes(sel, sym, &mut buf);
            let e = exact(rank(q), n);
            (eidx(c.move_on_key_equal_to(q), n), e)
        }
        Op::Reset => {
            c.reset();
            m.pos = None;
            m.valid = true;
            return;
        }
        Op::Current => {
            if m.valid {
                let got = eidx_plain(c.current(), n);
                assert!(got == m.pos, "C03: current() differs from the last returned entry");
            }
            return;
        }
        Op::CloneSwitch | Op::Fork(_) => return, // handled by the interpreter
    };
    match got {
        Ok(g) => assert!(g == expect, "cursor operation returned a different entry than the sorted content determines"),
        Err(()) => panic!("cursor operation failed although no I/O fault was injected"),
    }
    match expect {
        Some(i) => {
            m.pos = Some(i);
            m.valid = true;
        }
        None => m.valid = false,
    }
    // C16: block loads per operation bounded by the index depth; every load preceded by one absolute seek
    let loads = t().loads - loads0;
    assert!(loads <= 2 * (levels as u32 + 2), "C16: more than 2 x (levels + 2) block loads in one operation");
    assert!(t().protocol_ok, "C16: block load not preceded by exactly one absolute seek");
}

/// Run a concrete operation schema (symbolic keys, one symbolic probe) on a fresh cursor.
pub(crate) fn run_schema(layout: u8, ops: &[Op], minlen: usize, maxlen: usize, probe_max: usize) {
    reset_tables();
    let l = build_layout(layout, minlen, maxlen);
    let sym = any_probe(probe_max);
    let mut c = open(&l, FileVersion::FormatV2);
    let mut m = Model { n: l.n, pos: None, valid: true };
    let mut i = 0;
    while i < ops.len() {
        match ops[i] {
            Op::CloneSwitch => {
                let c2 = c.clone();
                mem::forget(mem::replace(&mut c, c2));
            }
            Op::Fork(code) => {
                let mut c2 = c.clone();
                let mut m2 = m;
                apply(&mut c2, &mut m2, simple(code), &sym, l.levels);
                // the original is unaffected by what its clone did
                apply(&mut c, &mut m, simple(code), &sym, l.levels);
                mem::forget(c2);
            }
            op => apply(&mut c, &mut m, op, &sym, l.levels),
        }
        i += 1;
    }
    let qr = rank(&sym.b[..sym.len]);
    if l.n >= 2 {
        kani::cover!(qr < rank(key_of(0)));
        kani::cover!(qr > rank(key_of(l.n - 1)));
        kani::cover!(qr == rank(key_of(1)));
        kani::cover!(qr > rank(key_of(0)) && qr < rank(key_of(1)));
    }
    kani::cover!(m.valid);
    mem::forget(c);
}

macro_rules! glue_harness {
    ($name:ident, $unwind:expr, $body:block) => {
        #[kani::proof]
        #[kani::unwind($unwind)]
        #[kani::stub(crate::block::Block::new, crate::block::verif_ac::ac_block_new)]
        #[kani::stub(crate::block::BlockCursor::current, crate::block::verif_ac::ac_current)]
        #[kani::stub(crate::block::BlockCursor::move_on_first, crate::block::verif_ac::ac_first)]
        #[kani::stub(crate::block::BlockCursor::move_on_last, crate::block::verif_ac::ac_last)]
        #[kani::stub(crate::block::BlockCursor::move_on_next, crate::block::verif_ac::ac_next)]
        #[kani::stub(crate::block::BlockCursor::move_on_prev, crate::block::verif_ac::ac_prev)]
        #[kani::stub(crate::block::BlockCursor::move_on_key_lower_than_or_equal_to, crate::block::verif_ac::ac_le)]
        #[kani::stub(crate::block::BlockCursor::move_on_key_greater_than_or_equal_to, crate::block::verif_ac::ac_ge)]
        fn $name() $body
    };
}
pub(crate) use glue_harness;

include!("cursor_gen.rs");
