// C14 kernels: real varint_encode32 / varint_decode32 / varint_length_packed, all 2^32 values.
use super::*;

/// Independent 5-line LEB128 used as the oracle (shares no code with the crate).
fn ref_leb128(mut v: u32, out: &mut [u8; 5]) -> usize {
    let mut n = 0;
    loop {
        let b = (v & 0x7f) as u8;
        v >>= 7;
        if v == 0 {
            out[n] = b;
            return n + 1;
        }
        out[n] = b | 0x80;
        n += 1;
    }
}

#[kani::proof]
#[kani::unwind(7)]
fn c14_codec() {
    let value: u32 = kani::any();
    let mut buf = [0u8; 10];
    let enc_len = varint_encode32(&mut buf, value).len();

    // 1..=5 bytes, shortest form for the value's range
    let expect_len = if value < (1 << 7) {
        1
    } else if value < (1 << 14) {
        2
    } else if value < (1 << 21) {
        3
    } else if value < (1 << 28) {
        4
    } else {
        5
    };
    assert!(enc_len == expect_len);

    // byte-exact against the independent LEB128
    let mut r = [0u8; 5];
    let rl = ref_leb128(value, &mut r);
    assert!(rl == enc_len);
    let mut i = 0;
    while i < 5 {
        if i < rl {
            assert!(buf[i] == r[i]);
        }
        i += 1;
    }

    // decode of `encoding ‖ arbitrary following bytes` returns the value and consumes exactly
    // the encoding. `tail` symbolic, and the slice handed to decode has symbolic length >= enc_len.
    let tail: [u8; 5] = kani::any();
    let mut data = [0u8; 10];
    let mut i = 0;
    while i < 5 {
        data[i] = buf[i];
        i += 1;
    }
    let mut i = 0;
    while i < 5 {
        data[enc_len + i] = tail[i];
        i += 1;
    }
    let extra: usize = kani::any();
    kani::assume(extra <= 5);
    let mut out = 0u32;
    let consumed = varint_decode32(&data[..enc_len + extra], &mut out);
    assert!(consumed == enc_len);
    assert!(out == value);

    kani::cover!(value == (1 << 7) - 1);
    kani::cover!(value == 1 << 7);
    kani::cover!(value == (1 << 14) - 1);
    kani::cover!(value == 1 << 14);
    kani::cover!(value == (1 << 21) - 1);
    kani::cover!(value == 1 << 21);
    kani::cover!(value == (1 << 28) - 1);
    kani::cover!(value == 1 << 28);
    kani::cover!(value == u32::MAX);
    kani::cover!(value == 0);
    kani::cover!(extra == 0 && enc_len == 5);
}
