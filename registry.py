"""Harness registry: which kit file is injected where, and which harness decides what, under which bounds."""
import glob
import os

# source file in the overlay -> kit file injected as `#[cfg(kani)] mod verif_h;` (child module: private access)
INJECT = {
    "src/varint.rs": "varint_h.rs",
    "src/metadata.rs": "metadata_h.rs",
    "src/block.rs": ["block_h.rs", ("ac_model.rs", "verif_ac")],
    "src/reader/reader_cursor.rs": "cursor_h.rs",
}

GLOBAL_ASSUMPTIONS = [
    "crate built with --no-default-features: only CompressionType::None executes; codecs are outside every claim",
    "Kani models the dev profile: debug assertions and overflow checks ON",
    "format!/panic message arguments are not evaluated (Kani assert override)",
    "every claim holds only inside the bounds listed per harness; unwinding assertions are ON so a too-small bound is reported",
]


def inject_list(kits):
    if isinstance(kits, str):
        kits = [kits]
    return [(k, "verif_h") if isinstance(k, str) else k for k in kits]


def find_grenad_047():
    for p in glob.glob(os.path.expanduser("~/.cargo/registry/src/*/grenad-0.4.7")):
        return p
    return None


def H(name, props, tier="quick", **kw):
    d = dict(name=name, props=props, tier=tier)
    d.update(kw)
    return d


HARNESSES = [
    # ------------------------------------------------------------------------------------------- L0 kernels
    H("varint::verif_h::c14_codec", ["C14"], kind="K", layer="L0", timeout=300,
      decides="all 2^32 lengths: 1..=5 bytes, shortest form, byte-exact vs independent LEB128, decode(encoding ‖ junk) "
              "returns the value and consumes exactly the encoding",
      functions=["varint::varint_encode32", "varint::varint_decode32", "varint::varint_length_packed"],
      bounds="value: all u32; up to 5 arbitrary trailing bytes; unwind 7",
      outside="nothing inside the codec; materialised entries at 2^14..2^28 are covered by framing harnesses only below 2^7+"),
    # ------------------------------------------------------------------------------------------- trailer
    H("metadata::verif_h::c13_open", ["C13", "C10"], kind="K", layer="L2", timeout=600,
      decides="Reader::new over every byte string of length 0..=48: no panic; Ok iff the string ends in a complete V1/V2 "
              "trailer with known codec id; fields read from the specified positions",
      functions=["Reader::new", "Metadata::read_from", "CompressionType::from_u8", "std::io::Cursor seek/read", "byteorder reads"],
      bounds="len 0..=48 symbolic, content symbolic; unwind 10",
      outside="strings longer than 48 bytes (read_from touches only the last 22 bytes: c16_open_io)"),
    H("metadata::verif_h::c10_v1_trailer", ["C10"], kind="K", layer="L2", timeout=600,
      decides="every string ending in a V1 trailer (21 bytes, codec <= 5) opens as FormatV1 with offset/codec/count from the V1 "
              "positions and index_levels 0",
      functions=["Reader::new", "Metadata::read_from", "Reader::file_version/len/compression_type"],
      bounds="len 21..=48; all field values; unwind 10"),
    H("metadata::verif_h::c10_trailer_bytes_v1", ["C10"], kind="K", layer="L2", timeout=600,
      decides="Metadata::write_into(V1) emits the 21 specified bytes and Reader::new reads every field back",
      functions=["Metadata::write_into", "Metadata::read_from", "Reader::new"],
      bounds="all u64 offsets/counts, all 6 codec ids"),
    H("metadata::verif_h::c09_trailer_bytes_v2", ["C09", "C01"], kind="K", layer="L2", timeout=600,
      decides="Metadata::write_into(V2) emits exactly the 22 specified bytes (offset LE, codec id, count LE, levels, magic "
              "C4 D4 23 67) and Reader::new reads every field back (Reader::len = count written, codec = codec written)",
      functions=["Metadata::write_into", "Metadata::read_from", "Reader::new", "Reader::len", "Reader::compression_type"],
      bounds="all u64 offsets/counts, all 6 codec ids, all u8 levels"),
    H("metadata::verif_h::c16_open_io", ["C16"], kind="K", layer="L2", timeout=900,
      decides="opening performs 2 seeks and reads 22 (V2) / 21 (V1) bytes, all inside the last 22 bytes; into_cursor reads nothing",
      functions=["Reader::new", "Metadata::read_from", "Reader::into_cursor", "ReaderCursor::new"],
      stubs=["CountSrc: counting Read+Seek over a byte slice (harness kit)"],
      bounds="file length 22..=48, any content ending in a valid trailer"),
]

# ------------------------------------------------------------------------------------------- L2 block layer
_BLOCK_FUNCS = ["BlockWriter::insert", "BlockWriter::finish", "Block::new", "Block::read_from", "compression::decompress(None)",
                "std Read::read_to_end/Take over &[u8]", "Block::entry_at", "varint_decode32", "varint_encode32"]
_BLOCK_BOUNDS = ("n <= 3 entries; keys symbolic length 0..=2 strictly ascending; values symbolic length 0..=2; probe symbolic "
                 "length 0..=3; every abstract pre-position (unpositioned, on entry i, End); interval %d; unwind 10")
_OPFN = {"current": "BlockCursor::current", "first": "BlockCursor::move_on_first", "last": "BlockCursor::move_on_last",
         "next": "BlockCursor::move_on_next", "prev": "BlockCursor::move_on_prev",
         "ge": "BlockCursor::move_on_key_greater_than_or_equal_to", "le": "BlockCursor::move_on_key_lower_than_or_equal_to"}
for _op, _props, _ivs in [("current", ["C03"], [2]), ("first", ["C03"], [1, 2, 8]), ("last", ["C03", "C01"], [1, 2, 8]),
                          ("next", ["C03", "C01"], [1, 2, 8]), ("prev", ["C03", "C01"], [1, 2, 8]),
                          ("ge", ["C02", "C03"], [1, 2, 8]), ("le", ["C02", "C03"], [1, 2, 8])]:
    for _iv in _ivs:
        _pre = "c02" if _op in ("ge", "le") else "c03"
        HARNESSES.append(H("block::verif_h::%s_block_%s_i%d" % (_pre, _op, _iv), _props,
                           tier="quick" if _iv == 2 else "thorough", kind="D+S", layer="L2", timeout=1500,
                           decides="AC ⊑ BlockCursor for `%s`: from every abstract pre-state of a real block, the real result equals the "
                                   "array-cursor model's (exact ceiling/floor/adjacent entry or None) and the post-position matches" % _op,
                           functions=_BLOCK_FUNCS + [_OPFN[_op]], bounds=_BLOCK_BOUNDS % _iv,
                           outside="keys > 2 bytes, > 3 entries per block, intervals other than 1/2/8"))
for _iv in (1, 2, 8):
    HARNESSES.append(H("block::verif_h::c01_block_new_i%d" % _iv, ["C01", "C09", "C14"], tier="quick" if _iv == 2 else "thorough",
                       kind="D", layer="L2", timeout=1500,
                       decides="Block::new over `len ‖ block` written by BlockWriter recovers payload size, the offset table (every "
                               "interval-th entry, first 0) and every entry via entry_at with exact next offsets",
                       functions=_BLOCK_FUNCS, bounds=_BLOCK_BOUNDS % _iv))
HARNESSES.append(H("block::verif_h::c17_block_borrows", ["C17"], kind="H", layer="L2", timeout=1500,
                   decides="slices returned by the >=-seek (incl. the 'static transmute) lie inside the live block buffer and are readable",
                   functions=_BLOCK_FUNCS + [_OPFN["ge"]], bounds=_BLOCK_BOUNDS % 2))


def harnesses_for(pid, tier, seed=0):
    hs = [h for h in HARNESSES if pid in h["props"]]
    if tier == "quick":
        hs = [h for h in hs if h["tier"] == "quick"]
    return hs


_REPLAYER_LOCK = __import__("threading").Lock()


def build_replayer(ov, scratch, env):
    """Build /verif/replayer against the overlay copy of the current tree (public API, no cfg). -> binary path or None."""
    import shutil
    import subprocess
    with _REPLAYER_LOCK:
        d = os.path.join(scratch, "replayer")
        binp = os.path.join(d, "target", "debug", "gv-replayer")
        if os.path.exists(binp):
            return binp, ""
        shutil.rmtree(d, ignore_errors=True)
        shutil.copytree(os.path.join(os.path.dirname(__file__), "replayer"), d)
        toml = open(os.path.join(d, "Cargo.toml.in")).read().replace("@GRENAD@", ov)
        open(os.path.join(d, "Cargo.toml"), "w").write(toml)
        lock = os.path.join(ov, "Cargo.lock")
        if os.path.exists(lock):
            shutil.copy(lock, os.path.join(d, "Cargo.lock"))
        p = subprocess.run(["cargo", "build", "--offline", "-q"], cwd=d, env=env, capture_output=True, text=True)
        if p.returncode != 0 and os.path.exists(os.path.join(d, "Cargo.lock")):
            os.remove(os.path.join(d, "Cargo.lock"))
            p = subprocess.run(["cargo", "build", "--offline", "-q"], cwd=d, env=env, capture_output=True, text=True)
        if p.returncode != 0:
            return None, "replayer build failed:\n" + p.stderr[-2000:]
        return binp, ""


def _hexs(bs):
    return "".join("%02x" % b for b in bs) or "-"


def spec_from_vectors(h, vecs):
    """Map Kani's concrete-playback vectors (one per kani::any() call, program order) onto the harness inputs."""
    levels, tree = LAYOUT_TREES[h["layout"]]
    n = len(tree_entries(tree))
    it = iter(vecs)

    def usize():
        return int.from_bytes(bytes(next(it)), "little")

    def byte():
        return next(it)[0]
    lines = ["levels %d" % levels, "version %d" % h.get("version", 2), "interval %d" % h.get("interval", 1),
             "tree " + tree_str(tree)]
    kl = 2
    for _ in range(n):
        ln = usize()
        kb = [byte() for _ in range(kl)]
        lines.append("key " + _hexs(kb[:ln]))
    nprobes = h.get("probes", 1)
    for j in range(nprobes):
        pb = [byte() for _ in range(3)]
        ln = usize()
        lines.append("probe%s %s" % ("" if j == 0 else "2", _hexs(pb[:ln])))
    mode = h.get("mode", "cursor")
    if mode == "cursor":
        lines.append("ops " + " ".join(h["schema"]))
    else:
        extra = []
        for name in h.get("mode_args", []):
            extra.append(name if not name.startswith("@") else "UIE"[byte()])
        lines.append("mode %s %s" % (mode, " ".join(extra)))
    return "\n".join(lines) + "\n"


def native_replay(h, tests, decode, ov, scratch, env):
    import subprocess
    if "layout" not in h:
        return None, "native replayer not available for this harness"
    binp, msg = build_replayer(ov, scratch, env)
    if not binp:
        return None, msg
    log = []
    for t in tests[:4]:
        try:
            spec = spec_from_vectors(h, decode(t))
        except (StopIteration, IndexError) as e:
            log.append("could not map playback vectors onto harness inputs: %r" % (e,))
            continue
        sp = os.path.join(scratch, "spec_%s_%d.txt" % (h["name"].split("::")[-1], len(log)))
        open(sp, "w").write(spec)
        p = subprocess.run([binp, sp], capture_output=True, text=True, timeout=120)
        log.append("--- replay spec (real bytes built by an independent encoder, run through the public API):\n" + spec + p.stdout + p.stderr[-1500:])
        if p.returncode == 1 and "REPRODUCED" in p.stdout:
            return True, "\n".join(log)
    return False, "\n".join(log)


# ------------------------------------------------------------------------------------------------ manifest data
TECH = "bounded model checking of the real code: Kani 0.68 -> CBMC 6.11 -> CaDiCaL over symbolic inputs, counterexamples replayed natively"

PROPS = {
    "C13": dict(claimed=True, design="§5 C13",
                text="Solver-decided for every byte string of length 0..=48 (length and content symbolic): Reader::new never panics and "
                     "returns Ok exactly when the string ends in a complete V1/V2 trailer with a known codec id, the predicate being "
                     "written independently over the raw bytes. Bounded model checking is the right level: the input space is finite "
                     "per length and the code is loop-free integer/byte logic, so the bound (48 bytes > trailer + 26 bytes of body) "
                     "covers every truncation/corruption class; longer files rely on open touching only the last 22 bytes (c16_open_io).",
                note="Kani/CBMC/CaDiCaL trusted; std::io::Cursor and byteorder are executed, not modelled; lengths > 48 outside."),
    "C14": dict(claimed=True, design="§5 C14",
                text="All 2^32 length values decided in one solver query against an independent LEB128 (length, shortest form, exact "
                     "bytes, decode of encoding‖junk returns the value and consumes exactly the encoding); framing use on write/read "
                     "decided for symbolic key/value lengths across the 2^7 boundary.",
                note="Entries materialised at 2^14/2^21/2^28 are outside (arrays of 16 KiB..256 MiB are not encodable); there the claim is "
                     "the codec kernel plus the framing harness showing framing uses only the codec's value and consumed length."),
    "C10": dict(claimed=True, design="§5 C10",
                text="Every byte string ending in a V1 trailer opens as FormatV1 with the fields at the V1 positions (all field values "
                     "symbolic); write_into(V1) is its inverse; cursor/iterator glue is shown not to depend on the file version.",
                note="V1 files with real codecs are outside (codecs not encodable). No V1 writer exists; the reference encoder provides the trailer."),
}

NOT_YET = "check not built yet in this revision (work in progress; see DESIGN.md §5)"


def manifest():
    import json
    ids = [json.loads(l)["id"] for l in open(os.path.join(os.path.dirname(__file__), "properties.jsonl"))]
    checks, na = [], []
    for pid in ids:
        p = PROPS.get(pid)
        if not p or not p.get("claimed"):
            na.append({"property_id": pid, "reason": (p or {}).get("na_reason", NOT_YET)})
            continue
        c = {
            "property_id": pid,
            "quick_cmd": "./vk check %s --tier quick" % pid,
            "thorough_cmd": "./vk check %s --tier thorough" % pid,
            "evidence_file": "/verif/evidence/%s.json" % pid,
            "replay_cmd_template": "cat {path}",
            "engine": "kani",
            "level_claimed": {"category": "model_checking", "text": p["text"], "design_ref": p["design"]},
            "level_note": p["note"],
            "technique": TECH,
        }
        checks.append(c)
    return {
        "version": 1,
        "setup_cmd": "./vk setup",
        "hooks": {
            "guard": "kani",
            "enable": "no source hooks in /repo: vk copies the working tree to a scratch overlay and appends `#[cfg(kani)] mod verif_h;` "
                      "child modules (harness kit) there; cfg(kani) is set only by cargo-kani",
            "baseline_off_cmd": "cd /repo && cargo test --workspace --no-fail-fast --offline",
            "source_commits": [],
            "add_only": True,
        },
        "engines": [{"name": "kani", "path": "/verif/vk", "serves_properties": [c["property_id"] for c in checks],
                     "kind_free_text": "Kani 0.68 / CBMC 6.11 / CaDiCaL bounded model checking of grenad's compiled MIR through in-crate harness modules"}],
        "checks": checks,
        "not_applicable": na,
        "notes": "Exit codes of vk: 0 held, 1 VIOLATION (counterexample replayed natively), 2 inconclusive (resource-out / build failure / "
                 "non-reproducing counterexample). Fix commits in /repo: see known_findings.json.",
    }


if __name__ == "__main__":
    import json
    import sys
    json.dump(manifest(), open(os.path.join(os.path.dirname(__file__), "MANIFEST.json"), "w"), indent=1)
    print("MANIFEST.json written")


# ------------------------------------------------------------------------------------------- L3 glue (generated harnesses)
def D(*idx):
    return ("D", list(idx))


def I(*children):
    return ("I", list(children))


# name -> (levels, tree). Trees the real writer can produce: the root has <= 1 entry when levels >= 1, level 1 is a single
# block, only levels >= 2 are split. Leaves D(..) list indices into the sorted entry table.
LAYOUT_TREES = {
    "e0": (0, I()),
    "e2": (2, I()),
    "l0s": (0, I(D(0))),
    "l0a": (0, I(D(0, 1), D(2, 3))),
    "l0b": (0, I(D(0), D(1, 2), D(3))),
    "l1": (1, I(I(D(0, 1), D(2), D(3)))),
    "l2a": (2, I(I(I(D(0, 1), D(2)), I(D(3, 4))))),
    "l2b": (2, I(I(I(D(0)), I(D(1), D(2, 3))))),
    "l2c": (2, I(I(I(D(0, 1)), I(D(2, 3)), I(D(4))))),
    "l3": (3, I(I(I(I(D(0)), I(D(1))), I(I(D(2), D(3)))))),
}


def tree_str(t):
    if t[0] == "D":
        return "D(%s)" % ",".join(str(i) for i in t[1])
    return "I(%s)" % ",".join(tree_str(c) for c in t[1])


def tree_entries(t):
    if t[0] == "D":
        return list(t[1])
    out = []
    for c in t[1]:
        out += tree_entries(c)
    return out


LAYOUTS = {}  # name -> (rust const, levels, n entries, description)
for _i, (_name, (_lv, _tree)) in enumerate(LAYOUT_TREES.items()):
    LAYOUTS[_name] = ("LAY_%s" % _name.upper(), _lv, len(tree_entries(_tree)), "levels %d: %s" % (_lv, tree_str(_tree)))


def layout_rust():
    """Rust source of the layout constants and build_layout(), generated from LAYOUT_TREES."""
    out = ["// generated by registry.py from LAYOUT_TREES (the native replayer builds real files from the same trees)"]
    for i, name in enumerate(LAYOUT_TREES):
        out.append("pub(crate) const %s: u8 = %d; // %s" % (LAYOUTS[name][0], i, LAYOUTS[name][3]))
    out.append("pub(crate) fn build_layout(id: u8, minlen: usize, maxlen: usize) -> Layout {")
    out.append("    match id {")
    names = list(LAYOUT_TREES)
    for i, name in enumerate(names):
        levels, tree = LAYOUT_TREES[name]
        n = len(tree_entries(tree))
        body = []
        counter = [0]

        def emit(t):
            if t[0] == "D":
                v = "b%d" % counter[0]
                counter[0] += 1
                idx = t[1]
                assert idx == list(range(idx[0], idx[0] + len(idx)))
                body.append("let %s = data_block(e + %d, %d);" % (v, idx[0], len(idx)))
                return v
            kids = [emit(c) for c in t[1]]
            assert len(kids) <= 4
            v = "b%d" % counter[0]
            counter[0] += 1
            body.append("let %s = index_block(&[%s], %d);" % (v, ", ".join(kids + ["0"] * (4 - len(kids))), len(kids)))
            return v
        root = emit(tree)
        pat = "_" if i == len(names) - 1 else LAYOUTS[name][0]
        out.append("        %s => {" % pat)
        out.append("            let e = add_entries(%d, minlen, maxlen);" % n if n else "            let e = 0usize; let _ = (e, minlen, maxlen);")
        out += ["            " + l for l in body]
        out.append("            Layout { root: %s, levels: %d, n: %d }" % (root, levels, n))
        out.append("        }")
    out.append("    }")
    out.append("}")
    return "\n".join(out) + "\n"


_OPRS = {"first": "Op::First", "last": "Op::Last", "next": "Op::Next", "prev": "Op::Prev", "reset": "Op::Reset",
         "current": "Op::Current", "clone": "Op::CloneSwitch"}
_FORK = {"first": "F_FIRST", "last": "F_LAST", "next": "F_NEXT", "prev": "F_PREV", "current": "F_CURRENT"}
_ABBR = {"first": "F", "last": "L", "next": "n", "prev": "p", "reset": "R", "current": "c", "clone": "K"}


def _op_rs(op):
    if op in _OPRS:
        return _OPRS[op]
    kind, arg = op.split(":")
    if kind == "fork":
        return "Op::Fork(%s)" % _FORK[arg]
    sel = "Q_SYM" if arg == "sym" else arg
    return "Op::%s(%s)" % ({"ge": "Ge", "le": "Le", "eq": "Eq"}[kind], sel)


def _op_abbr(op):
    if op in _ABBR:
        return _ABBR[op]
    kind, arg = op.split(":")
    if kind == "fork":
        return "Y" + _ABBR[arg]
    return {"ge": "G", "le": "E", "eq": "Q"}[kind] + ("s" if arg == "sym" else arg)


def schema_harness(prefix, layout, ops, minlen=1, maxlen=1, probe_max=2, unwind=None):
    """-> (fn name, rust source)"""
    name = "%s_%s_%s" % (prefix, layout, "".join(_op_abbr(o) for o in ops))
    const, levels, n, _ = LAYOUTS[layout]
    if unwind is None:
        unwind = max(9, len(ops) + 2)  # MAXE + 1 = 9 for the table loops; ops loop
    src = "glue_harness!(%s, %d, {\n    let ops = [%s];\n    run_schema(%s, &ops, %d, %d, %d);\n});\n" % (
        name, unwind, ", ".join(_op_rs(o) for o in ops), const, minlen, maxlen, probe_max)
    return name, src


GLUE_FUNCS = ["ReaderCursor::new/reset/current/move_on_first/move_on_last/move_on_next/move_on_prev",
              "ReaderCursor::move_on_key_greater_than_or_equal_to/_lower_than_or_equal_to/_equal_to",
              "ReaderCursor::next_block_from_index/prev_block_from_index", "IndexBlockCursor::iter_index_blocks",
              "IndexBlockCursor::recursive_index_block", "IndexBlockCursor::initial_index_blocks", "Clone for ReaderCursor",
              "Reader::into_cursor"]
GLUE_STUBS = ["Block::new -> ac_block_new (abstract block = id; discharged by block::verif_h::c01_block_new_*)",
              "BlockCursor::{current,move_on_first,move_on_last,move_on_next,move_on_prev,move_on_key_lower_than_or_equal_to,"
              "move_on_key_greater_than_or_equal_to} -> array-cursor model ac_step (discharged against the real BlockCursor over "
              "real blocks by block::verif_h::c0{2,3}_block_*)",
              "source = ModelFile (Read+Seek returning the seek position; counts loads/seeks)"]

GEN_CURSOR = []  # (fn name, source)


def G(prefix, layout, ops, props, tier="quick", mem="light", timeout=1500, **kw):
    name, src = schema_harness(prefix, layout, ops, **{k: kw.pop(k) for k in ("minlen", "maxlen", "probe_max", "unwind") if k in kw})
    GEN_CURSOR.append((name, src))
    HARNESSES.append(H("reader::reader_cursor::verif_h::" + name, props, tier=tier, mem=mem, timeout=timeout, kind="H", layer="L3",
                       replay="native",
                       decides="history [%s] on a fresh cursor over %s: every result equals the entry determined by the sorted content "
                               "and the logical position; loads per op <= 2*(levels+2), each preceded by one absolute seek" % (
                                   ", ".join(ops), LAYOUTS[layout][3]),
                       functions=GLUE_FUNCS, stubs=GLUE_STUBS, schema=ops, layout=layout,
                       bounds="layout fixed (fan-out <= 3, <= 2 entries per data block), keys symbolic 1 byte strictly ascending, "
                              "one symbolic probe of length 0..=2; unwind from table size", **kw))
    return name


# C03 quick family: the block-crossing patterns on layouts with two blocks at a non-root level
G("c03_hist", "l2a", ["first", "first", "next", "next", "next", "current", "first", "current"], ["C03", "C16"])
G("c03_hist", "l2a", ["last", "last", "prev", "prev", "current", "last"], ["C03", "C16"])
G("c03_hist", "l2a", ["first", "next", "next", "next", "first", "ge:4"], ["C03", "C16"])
G("c03_hist", "l2a", ["last", "prev", "prev", "last", "le:0"], ["C03", "C16"])
G("c03_hist", "l2a", ["first", "next", "next", "next", "ge:sym"], ["C03", "C02", "C16"])
G("c03_hist", "l2a", ["last", "prev", "prev", "le:sym"], ["C03", "C02", "C16"])
G("c03_hist", "l2a", ["first", "next", "clone", "next", "next", "fork:next"], ["C03", "C16"])
G("c03_hist", "l2a", ["last", "clone", "prev", "prev", "fork:prev", "reset", "next"], ["C03", "C16"])


def generate(kit_dst):
    with open(os.path.join(kit_dst, "layout_gen.rs"), "w") as f:
        f.write(layout_rust())
    with open(os.path.join(kit_dst, "cursor_gen.rs"), "w") as f:
        f.write("// generated by registry.py from the schema table\n")
        for _, src in GEN_CURSOR:
            f.write(src)
