"""Harness registry: which kit file is injected where, and which harness decides what, under which bounds."""
import glob
import os

# source file in the overlay -> kit file injected as `#[cfg(kani)] mod verif_h;` (child module: private access)
INJECT = {
    "src/varint.rs": "varint_h.rs",
    "src/metadata.rs": "metadata_h.rs",
    "src/block.rs": ["block_h.rs", ("ac_model.rs", "verif_ac")],
    "src/reader/reader_cursor.rs": "cursor_h.rs",
}

GLOBAL_ASSUMPTIONS = [
    "crate built with --no-default-features: only CompressionType::None executes; codecs are outside every claim",
    "Kani models the dev profile: debug assertions and overflow checks ON",
    "format!/panic message arguments are not evaluated (Kani assert override)",
    "every claim holds only inside the bounds listed per harness; unwinding assertions are ON so a too-small bound is reported",
]


def inject_list(kits):
    if isinstance(kits, str):
        kits = [kits]
    return [(k, "verif_h") if isinstance(k, str) else k for k in kits]


def find_grenad_047():
    for p in glob.glob(os.path.expanduser("~/.cargo/registry/src/*/grenad-0.4.7")):
        return p
    return None


def H(name, props, tier="quick", **kw):
    d = dict(name=name, props=props, tier=tier)
    d.update(kw)
    return d


HARNESSES = [
    # ------------------------------------------------------------------------------------------- L0 kernels
    H("varint::verif_h::c14_codec", ["C14"], kind="K", layer="L0", timeout=300,
      decides="all 2^32 lengths: 1..=5 bytes, shortest form, byte-exact vs independent LEB128, decode(encoding ‖ junk) "
              "returns the value and consumes exactly the encoding",
      functions=["varint::varint_encode32", "varint::varint_decode32", "varint::varint_length_packed"],
      bounds="value: all u32; up to 5 arbitrary trailing bytes; unwind 7",
      outside="nothing inside the codec; materialised entries at 2^14..2^28 are covered by framing harnesses only below 2^7+"),
    # ------------------------------------------------------------------------------------------- trailer
    H("metadata::verif_h::c13_open", ["C13", "C10"], kind="K", layer="L2", timeout=600,
      decides="Reader::new over every byte string of length 0..=48: no panic; Ok iff the string ends in a complete V1/V2 "
              "trailer with known codec id; fields read from the specified positions",
      functions=["Reader::new", "Metadata::read_from", "CompressionType::from_u8", "std::io::Cursor seek/read", "byteorder reads"],
      bounds="len 0..=48 symbolic, content symbolic; unwind 10",
      outside="strings longer than 48 bytes (read_from touches only the last 22 bytes: c16_open_io)"),
    H("metadata::verif_h::c10_v1_trailer", ["C10"], kind="K", layer="L2", timeout=600,
      decides="every string ending in a V1 trailer (21 bytes, codec <= 5) opens as FormatV1 with offset/codec/count from the V1 "
              "positions and index_levels 0",
      functions=["Reader::new", "Metadata::read_from", "Reader::file_version/len/compression_type"],
      bounds="len 21..=48; all field values; unwind 10"),
    H("metadata::verif_h::c10_trailer_bytes_v1", ["C10"], kind="K", layer="L2", timeout=600,
      decides="Metadata::write_into(V1) emits the 21 specified bytes and Reader::new reads every field back",
      functions=["Metadata::write_into", "Metadata::read_from", "Reader::new"],
      bounds="all u64 offsets/counts, all 6 codec ids"),
    H("metadata::verif_h::c09_trailer_bytes_v2", ["C09", "C01"], kind="K", layer="L2", timeout=600,
      decides="Metadata::write_into(V2) emits exactly the 22 specified bytes (offset LE, codec id, count LE, levels, magic "
              "C4 D4 23 67) and Reader::new reads every field back (Reader::len = count written, codec = codec written)",
      functions=["Metadata::write_into", "Metadata::read_from", "Reader::new", "Reader::len", "Reader::compression_type"],
      bounds="all u64 offsets/counts, all 6 codec ids, all u8 levels"),
    H("metadata::verif_h::c16_open_io", ["C16"], kind="K", layer="L2", timeout=900,
      decides="opening performs 2 seeks and reads 22 (V2) / 21 (V1) bytes, all inside the last 22 bytes; into_cursor reads nothing",
      functions=["Reader::new", "Metadata::read_from", "Reader::into_cursor", "ReaderCursor::new"],
      stubs=["CountSrc: counting Read+Seek over a byte slice (harness kit)"],
      bounds="file length 22..=48, any content ending in a valid trailer"),
]

# ------------------------------------------------------------------------------------------- L2 block layer
_BLOCK_FUNCS = ["BlockWriter::insert", "BlockWriter::finish", "Block::new", "Block::read_from", "compression::decompress(None)",
                "std Read::read_to_end/Take over &[u8]", "Block::entry_at", "varint_decode32", "varint_encode32"]
_BLOCK_BOUNDS = ("n <= 3 entries; keys symbolic length 0..=2 strictly ascending; values symbolic length 0..=2; probe symbolic "
                 "length 0..=3; every abstract pre-position (unpositioned, on entry i, End); interval %d; unwind 10")
_OPFN = {"current": "BlockCursor::current", "first": "BlockCursor::move_on_first", "last": "BlockCursor::move_on_last",
         "next": "BlockCursor::move_on_next", "prev": "BlockCursor::move_on_prev",
         "ge": "BlockCursor::move_on_key_greater_than_or_equal_to", "le": "BlockCursor::move_on_key_lower_than_or_equal_to"}
for _op, _props, _ivs in [("current", ["C03"], [2]), ("first", ["C03"], [1, 2, 8]), ("last", ["C03", "C01"], [1, 2, 8]),
                          ("next", ["C03", "C01"], [1, 2, 8]), ("prev", ["C03", "C01"], [1, 2, 8]),
                          ("ge", ["C02", "C03"], [1, 2, 8]), ("le", ["C02", "C03"], [1, 2, 8])]:
    for _iv in _ivs:
        _pre = "c02" if _op in ("ge", "le") else "c03"
        HARNESSES.append(H("block::verif_h::%s_block_%s_i%d" % (_pre, _op, _iv), _props,
                           tier="quick" if _iv == 2 else "thorough", kind="D+S", layer="L2", timeout=1500,
                           decides="AC ⊑ BlockCursor for `%s`: from every abstract pre-state of a real block, the real result equals the "
                                   "array-cursor model's (exact ceiling/floor/adjacent entry or None) and the post-position matches" % _op,
                           functions=_BLOCK_FUNCS + [_OPFN[_op]], bounds=_BLOCK_BOUNDS % _iv,
                           outside="keys > 2 bytes, > 3 entries per block, intervals other than 1/2/8"))
for _iv in (1, 2, 8):
    HARNESSES.append(H("block::verif_h::c01_block_new_i%d" % _iv, ["C01", "C09", "C14"], tier="quick" if _iv == 2 else "thorough",
                       kind="D", layer="L2", timeout=1500,
                       decides="Block::new over `len ‖ block` written by BlockWriter recovers payload size, the offset table (every "
                               "interval-th entry, first 0) and every entry via entry_at with exact next offsets",
                       functions=_BLOCK_FUNCS, bounds=_BLOCK_BOUNDS % _iv))
HARNESSES.append(H("block::verif_h::c17_block_borrows", ["C17"], kind="H", layer="L2", timeout=1500,
                   decides="slices returned by the >=-seek (incl. the 'static transmute) lie inside the live block buffer and are readable",
                   functions=_BLOCK_FUNCS + [_OPFN["ge"]], bounds=_BLOCK_BOUNDS % 2))


def harnesses_for(pid, tier, seed=0):
    hs = [h for h in HARNESSES if pid in h["props"]]
    if tier == "quick":
        hs = [h for h in hs if h["tier"] == "quick"]
    return hs


def native_replay(h, tests, decode, ov, scratch, env):
    return None, "native replayer not available for this harness"


# ------------------------------------------------------------------------------------------------ manifest data
TECH = "bounded model checking of the real code: Kani 0.68 -> CBMC 6.11 -> CaDiCaL over symbolic inputs, counterexamples replayed natively"

PROPS = {
    "C13": dict(claimed=True, design="§5 C13",
                text="Solver-decided for every byte string of length 0..=48 (length and content symbolic): Reader::new never panics and "
                     "returns Ok exactly when the string ends in a complete V1/V2 trailer with a known codec id, the predicate being "
                     "written independently over the raw bytes. Bounded model checking is the right level: the input space is finite "
                     "per length and the code is loop-free integer/byte logic, so the bound (48 bytes > trailer + 26 bytes of body) "
                     "covers every truncation/corruption class; longer files rely on open touching only the last 22 bytes (c16_open_io).",
                note="Kani/CBMC/CaDiCaL trusted; std::io::Cursor and byteorder are executed, not modelled; lengths > 48 outside."),
    "C14": dict(claimed=True, design="§5 C14",
                text="All 2^32 length values decided in one solver query against an independent LEB128 (length, shortest form, exact "
                     "bytes, decode of encoding‖junk returns the value and consumes exactly the encoding); framing use on write/read "
                     "decided for symbolic key/value lengths across the 2^7 boundary.",
                note="Entries materialised at 2^14/2^21/2^28 are outside (arrays of 16 KiB..256 MiB are not encodable); there the claim is "
                     "the codec kernel plus the framing harness showing framing uses only the codec's value and consumed length."),
    "C10": dict(claimed=True, design="§5 C10",
                text="Every byte string ending in a V1 trailer opens as FormatV1 with the fields at the V1 positions (all field values "
                     "symbolic); write_into(V1) is its inverse; cursor/iterator glue is shown not to depend on the file version.",
                note="V1 files with real codecs are outside (codecs not encodable). No V1 writer exists; the reference encoder provides the trailer."),
}

NOT_YET = "check not built yet in this revision (work in progress; see DESIGN.md §5)"


def manifest():
    import json
    ids = [json.loads(l)["id"] for l in open(os.path.join(os.path.dirname(__file__), "properties.jsonl"))]
    checks, na = [], []
    for pid in ids:
        p = PROPS.get(pid)
        if not p or not p.get("claimed"):
            na.append({"property_id": pid, "reason": (p or {}).get("na_reason", NOT_YET)})
            continue
        c = {
            "property_id": pid,
            "quick_cmd": "./vk check %s --tier quick" % pid,
            "thorough_cmd": "./vk check %s --tier thorough" % pid,
            "evidence_file": "/verif/evidence/%s.json" % pid,
            "replay_cmd_template": "cat {path}",
            "engine": "kani",
            "level_claimed": {"category": "model_checking", "text": p["text"], "design_ref": p["design"]},
            "level_note": p["note"],
            "technique": TECH,
        }
        checks.append(c)
    return {
        "version": 1,
        "setup_cmd": "./vk setup",
        "hooks": {
            "guard": "kani",
            "enable": "no source hooks in /repo: vk copies the working tree to a scratch overlay and appends `#[cfg(kani)] mod verif_h;` "
                      "child modules (harness kit) there; cfg(kani) is set only by cargo-kani",
            "baseline_off_cmd": "cd /repo && cargo test --workspace --no-fail-fast --offline",
            "source_commits": [],
            "add_only": True,
        },
        "engines": [{"name": "kani", "path": "/verif/vk", "serves_properties": [c["property_id"] for c in checks],
                     "kind_free_text": "Kani 0.68 / CBMC 6.11 / CaDiCaL bounded model checking of grenad's compiled MIR through in-crate harness modules"}],
        "checks": checks,
        "not_applicable": na,
        "notes": "Exit codes of vk: 0 held, 1 VIOLATION (counterexample replayed natively), 2 inconclusive (resource-out / build failure / "
                 "non-reproducing counterexample). Fix commits in /repo: see known_findings.json.",
    }


if __name__ == "__main__":
    import json
    import sys
    json.dump(manifest(), open(os.path.join(os.path.dirname(__file__), "MANIFEST.json"), "w"), indent=1)
    print("MANIFEST.json written")


# ------------------------------------------------------------------------------------------- L3 glue (generated harnesses)
LAYOUTS = {  # name -> (const, levels, n entries, description)
    "e0": ("LAY_EMPTY0", 0, 0, "empty file, levels 0"),
    "e2": ("LAY_EMPTY2", 2, 0, "empty file, levels 2"),
    "l0s": ("LAY_L0_1", 0, 1, "levels 0: root -> d(e0)"),
    "l0a": ("LAY_L0_22", 0, 4, "levels 0: root -> d(e0,e1) d(e2,e3)"),
    "l0b": ("LAY_L0_121", 0, 4, "levels 0: root -> d(e0) d(e1,e2) d(e3)"),
    "l1": ("LAY_L1_211", 1, 4, "levels 1: root -> l1 -> d(e0,e1) d(e2) d(e3)"),
    "l2a": ("LAY_L2_21_2", 2, 5, "levels 2: root -> l1 -> A[d(e0,e1) d(e2)] B[d(e3,e4)]"),
    "l2b": ("LAY_L2_1_12", 2, 4, "levels 2: root -> l1 -> A[d(e0)] B[d(e1) d(e2,e3)]"),
    "l2c": ("LAY_L2_2_2_1", 2, 5, "levels 2: root -> l1 -> A[d(e0,e1)] B[d(e2,e3)] C[d(e4)]"),
    "l3": ("LAY_L3", 3, 4, "levels 3: root -> l1 -> P[A[d(e0)] B[d(e1)]] Q[C[d(e2) d(e3)]]"),
}

_OPRS = {"first": "Op::First", "last": "Op::Last", "next": "Op::Next", "prev": "Op::Prev", "reset": "Op::Reset",
         "current": "Op::Current", "clone": "Op::CloneSwitch"}
_FORK = {"first": "F_FIRST", "last": "F_LAST", "next": "F_NEXT", "prev": "F_PREV", "current": "F_CURRENT"}
_ABBR = {"first": "F", "last": "L", "next": "n", "prev": "p", "reset": "R", "current": "c", "clone": "K"}


def _op_rs(op):
    if op in _OPRS:
        return _OPRS[op]
    kind, arg = op.split(":")
    if kind == "fork":
        return "Op::Fork(%s)" % _FORK[arg]
    sel = "Q_SYM" if arg == "sym" else arg
    return "Op::%s(%s)" % ({"ge": "Ge", "le": "Le", "eq": "Eq"}[kind], sel)


def _op_abbr(op):
    if op in _ABBR:
        return _ABBR[op]
    kind, arg = op.split(":")
    if kind == "fork":
        return "Y" + _ABBR[arg]
    return {"ge": "G", "le": "E", "eq": "Q"}[kind] + ("s" if arg == "sym" else arg)


def schema_harness(prefix, layout, ops, minlen=1, maxlen=1, probe_max=2, unwind=None):
    """-> (fn name, rust source)"""
    name = "%s_%s_%s" % (prefix, layout, "".join(_op_abbr(o) for o in ops))
    const, levels, n, _ = LAYOUTS[layout]
    if unwind is None:
        unwind = max(9, len(ops) + 2)  # MAXE + 1 = 9 for the table loops; ops loop
    src = "glue_harness!(%s, %d, {\n    let ops = [%s];\n    run_schema(%s, &ops, %d, %d, %d);\n});\n" % (
        name, unwind, ", ".join(_op_rs(o) for o in ops), const, minlen, maxlen, probe_max)
    return name, src


GLUE_FUNCS = ["ReaderCursor::new/reset/current/move_on_first/move_on_last/move_on_next/move_on_prev",
              "ReaderCursor::move_on_key_greater_than_or_equal_to/_lower_than_or_equal_to/_equal_to",
              "ReaderCursor::next_block_from_index/prev_block_from_index", "IndexBlockCursor::iter_index_blocks",
              "IndexBlockCursor::recursive_index_block", "IndexBlockCursor::initial_index_blocks", "Clone for ReaderCursor",
              "Reader::into_cursor"]
GLUE_STUBS = ["Block::new -> ac_block_new (abstract block = id; discharged by block::verif_h::c01_block_new_*)",
              "BlockCursor::{current,move_on_first,move_on_last,move_on_next,move_on_prev,move_on_key_lower_than_or_equal_to,"
              "move_on_key_greater_than_or_equal_to} -> array-cursor model ac_step (discharged against the real BlockCursor over "
              "real blocks by block::verif_h::c0{2,3}_block_*)",
              "source = ModelFile (Read+Seek returning the seek position; counts loads/seeks)"]

GEN_CURSOR = []  # (fn name, source)


def G(prefix, layout, ops, props, tier="quick", mem="light", timeout=1500, **kw):
    name, src = schema_harness(prefix, layout, ops, **{k: kw.pop(k) for k in ("minlen", "maxlen", "probe_max", "unwind") if k in kw})
    GEN_CURSOR.append((name, src))
    HARNESSES.append(H("reader::reader_cursor::verif_h::" + name, props, tier=tier, mem=mem, timeout=timeout, kind="H", layer="L3",
                       replay="native",
                       decides="history [%s] on a fresh cursor over %s: every result equals the entry determined by the sorted content "
                               "and the logical position; loads per op <= 2*(levels+2), each preceded by one absolute seek" % (
                                   ", ".join(ops), LAYOUTS[layout][3]),
                       functions=GLUE_FUNCS, stubs=GLUE_STUBS, schema=ops, layout=layout,
                       bounds="layout fixed (fan-out <= 3, <= 2 entries per data block), keys symbolic 1 byte strictly ascending, "
                              "one symbolic probe of length 0..=2; unwind from table size", **kw))
    return name


# C03 quick family: the block-crossing patterns on layouts with two blocks at a non-root level
G("c03_hist", "l2a", ["first", "first", "next", "next", "next", "current", "first", "current"], ["C03", "C16"])
G("c03_hist", "l2a", ["last", "last", "prev", "prev", "current", "last"], ["C03", "C16"])
G("c03_hist", "l2a", ["first", "next", "next", "next", "first", "ge:4"], ["C03", "C16"])
G("c03_hist", "l2a", ["last", "prev", "prev", "last", "le:0"], ["C03", "C16"])
G("c03_hist", "l2a", ["ge:sym", "ge:sym", "next", "next", "ge:sym"], ["C03", "C02", "C16"])
G("c03_hist", "l2a", ["first", "next", "clone", "next", "next", "fork:next"], ["C03", "C16"])
G("c03_hist", "l2a", ["last", "clone", "prev", "prev", "fork:prev", "reset", "next"], ["C03", "C16"])


def generate(kit_dst):
    with open(os.path.join(kit_dst, "cursor_gen.rs"), "w") as f:
        f.write("// generated by registry.py from the schema table\n")
        for _, src in GEN_CURSOR:
            f.write(src)
