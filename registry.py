"""Harness registry: which kit file is injected where, and which harness decides what, under which bounds."""
import glob
import os

# source file in the overlay -> kit file injected as `#[cfg(kani)] mod verif_h;` (child module: private access)
INJECT = {
    "src/varint.rs": "varint_h.rs",
    "src/metadata.rs": "metadata_h.rs",
    "src/block.rs": ["block_h.rs", ("ac_model.rs", "verif_ac")],
    "src/block_writer.rs": "block_writer_h.rs",
    "src/writer.rs": "writer_h.rs",
    "src/reader/reader_cursor.rs": "cursor_h.rs",
    "src/reader/range_iter.rs": "range_h.rs",
    "src/reader/prefix_iter.rs": "prefix_h.rs",
    "src/merger.rs": "merger_h.rs",
    "src/sorter.rs": "sorter_h.rs",
    "src/reader/mod.rs": [("@raw", "#[cfg(kani)]\npub(crate) use self::reader_cursor::verif_h as verif_cursor;")],
}

GLOBAL_ASSUMPTIONS = [
    "crate built with --no-default-features: only CompressionType::None executes; codecs are outside every claim",
    "Kani models the dev profile: debug assertions and overflow checks ON",
    "format!/panic message arguments are not evaluated (Kani assert override)",
    "every claim holds only inside the bounds listed per harness; unwinding assertions are ON so a too-small bound is reported",
]


def inject_list(kits):
    if isinstance(kits, str):
        kits = [kits]
    return [(k, "verif_h") if isinstance(k, str) else k for k in kits]


def find_grenad_047():
    for p in glob.glob(os.path.expanduser("~/.cargo/registry/src/*/grenad-0.4.7")):
        return p
    return None


def H(name, props, tier="quick", **kw):
    d = dict(name=name, props=props, tier=tier)
    d.update(kw)
    return d


HARNESSES = [
    # ------------------------------------------------------------------------------------------- L0 kernels
    H("varint::verif_h::c14_codec", ["C14"], kind="K", layer="L0", timeout=300,
      decides="all 2^32 lengths: 1..=5 bytes, shortest form, byte-exact vs independent LEB128, decode(encoding ‖ junk) "
              "returns the value and consumes exactly the encoding",
      functions=["varint::varint_encode32", "varint::varint_decode32", "varint::varint_length_packed"],
      bounds="value: all u32; up to 5 arbitrary trailing bytes; unwind 7",
      outside="nothing inside the codec; materialised entries at 2^14..2^28 are covered by framing harnesses only below 2^7+"),
    # ------------------------------------------------------------------------------------------- trailer
    H("metadata::verif_h::c13_open", ["C13", "C10"], kind="K", layer="L2", timeout=600,
      decides="Reader::new over every byte string of length 0..=48: no panic; Ok iff the string ends in a complete V1/V2 "
              "trailer with known codec id; fields read from the specified positions",
      functions=["Reader::new", "Metadata::read_from", "CompressionType::from_u8", "std::io::Cursor seek/read", "byteorder reads"],
      bounds="len 0..=48 symbolic, content symbolic; unwind 10",
      outside="strings longer than 48 bytes (read_from touches only the last 22 bytes: c16_open_io)"),
    H("metadata::verif_h::c10_v1_trailer", ["C10"], kind="K", layer="L2", timeout=600,
      decides="every string ending in a V1 trailer (21 bytes, codec <= 5) opens as FormatV1 with offset/codec/count from the V1 "
              "positions and index_levels 0",
      functions=["Reader::new", "Metadata::read_from", "Reader::file_version/len/compression_type"],
      bounds="len 21..=48; all field values; unwind 10"),
    H("metadata::verif_h::c10_trailer_bytes_v1", ["C10"], kind="K", layer="L2", timeout=600,
      decides="Metadata::write_into(V1) emits the 21 specified bytes and Reader::new reads every field back",
      functions=["Metadata::write_into", "Metadata::read_from", "Reader::new"],
      bounds="all u64 offsets/counts, all 6 codec ids"),
    H("metadata::verif_h::c09_trailer_bytes_v2", ["C09", "C01"], kind="K", layer="L2", timeout=600,
      decides="Metadata::write_into(V2) emits exactly the 22 specified bytes (offset LE, codec id, count LE, levels, magic "
              "C4 D4 23 67) and Reader::new reads every field back (Reader::len = count written, codec = codec written)",
      functions=["Metadata::write_into", "Metadata::read_from", "Reader::new", "Reader::len", "Reader::compression_type"],
      bounds="all u64 offsets/counts, all 6 codec ids, all u8 levels"),
    H("metadata::verif_h::c16_open_io", ["C16"], kind="K", layer="L2", timeout=900,
      decides="opening performs 2 seeks and reads 22 (V2) / 21 (V1) bytes, all inside the last 22 bytes; into_cursor reads nothing",
      functions=["Reader::new", "Metadata::read_from", "Reader::into_cursor", "ReaderCursor::new"],
      stubs=["CountSrc: counting Read+Seek over a byte slice (harness kit)"],
      bounds="file length 22..=48, any content ending in a valid trailer"),
]

# ------------------------------------------------------------------------------------------- L2 block layer
_BLOCK_FUNCS_NEW = ["Block::new", "Block::read_from", "compression::decompress(None)", "std Read::read_to_end/Take over &[u8]",
                    "Block::entry_at", "Block::payload", "varint_decode32"]
_BLOCK_FUNCS_CUR = ["Block::entry_at", "Block::payload", "Block::index_offsets", "varint_decode32", "varint_length_packed",
                    "(block bytes from the independent reference encoder; its equality with BlockWriter's output is block_writer::verif_h::c09_block_ref_*)"]
_BLOCK_BOUNDS = ("n <= 3 entries; keys symbolic length 0..=2 strictly ascending; values symbolic length 0..=2; probe symbolic "
                 "length 0..=3; every abstract pre-position (unpositioned, on entry i, End); interval %d; unwind 10")
_OPFN = {"current": "BlockCursor::current", "first": "BlockCursor::move_on_first", "last": "BlockCursor::move_on_last",
         "next": "BlockCursor::move_on_next", "prev": "BlockCursor::move_on_prev",
         "ge": "BlockCursor::move_on_key_greater_than_or_equal_to", "le": "BlockCursor::move_on_key_lower_than_or_equal_to"}
for _op, _props, _ivs in [("current", ["C03"], [2]), ("first", ["C03"], [1, 2, 8]), ("last", ["C03", "C01"], [1, 2, 8]),
                          ("next", ["C03", "C01"], [1, 2, 8]), ("prev", ["C03", "C01"], [1, 2, 8]),
                          ("ge", ["C02", "C03"], [1, 2, 8]), ("le", ["C02", "C03"], [1, 2, 8])]:
    for _iv in _ivs:
        _pre = "c02" if _op in ("ge", "le") else "c03"
        HARNESSES.append(H("block::verif_h::%s_block_%s_i%d" % (_pre, _op, _iv), _props,
                           tier="thorough", kind="D+S", layer="L2", timeout=2400, mem="medium",
                           decides="AC ⊑ BlockCursor for `%s`: from every abstract pre-state of a real block (entry LENGTHS symbolic too), the real result "
                                   "equals the array-cursor model's (exact ceiling/floor/adjacent entry or None) and the post-position matches" % _op,
                           functions=_BLOCK_FUNCS_CUR + [_OPFN[_op]], bounds=_BLOCK_BOUNDS % _iv,
                           outside="keys > 2 bytes, > 3 entries per block, intervals other than 1/2/8"))
HARNESSES.append(H("block::verif_h::c17_block_borrows", ["C02"], kind="H", layer="L2", timeout=2400, mem="medium", tier="thorough",
                   decides="slices returned by the >=-seek (incl. the 'static transmute) lie inside the live block buffer and are readable",
                   functions=_BLOCK_FUNCS_CUR + [_OPFN["ge"]], bounds=_BLOCK_BOUNDS % 2))

for _L in (127, 128, 129):
    HARNESSES.append(H("block::verif_h::c14_frame_%d" % _L, ["C14"], kind="D", layer="L2", timeout=1200,
                       decides="one entry with a %d-byte value (symbolic contents) written by the real BlockWriter and read back by the real Block::entry_at: key, "
                               "value length, every value byte (one symbolic position) and the next offset are exact; the length is framed in %d byte(s)" % (
                                   _L, 1 if _L < 128 else 2),
                       functions=["BlockWriter::insert/finish", "varint_encode32", "Block::entry_at", "varint_decode32", "varint_length_packed"],
                       bounds="value length %d (concrete), key length 1, contents symbolic" % _L,
                       outside="entries at the 2^14 / 2^21 / 2^28 boundaries are not materialised (codec kernel only)"))

# fixed-length instances (entry count and every key/value length concrete; contents, pre-position and probe symbolic): fast,
# so many length patterns and all three intervals run in the quick tier
LEN_PATTERNS = [  # (n, key lengths, value lengths)
    (0, [0, 0, 0], [0, 0, 0]),
    (1, [0, 0, 0], [0, 0, 0]),
    (1, [2, 0, 0], [2, 0, 0]),
    (2, [0, 1, 0], [1, 0, 0]),
    (2, [2, 2, 0], [2, 2, 0]),
    (3, [0, 1, 2], [2, 0, 1]),
    (3, [1, 2, 2], [0, 1, 2]),
    (3, [2, 2, 2], [1, 1, 1]),
    (3, [1, 1, 1], [0, 0, 0]),
    (3, [2, 1, 1], [2, 2, 2]),
    (3, [0, 2, 2], [0, 2, 0]),
]
GEN_BLOCK = []
_OPC = {"current": "OP_CURRENT", "first": "OP_FIRST", "last": "OP_LAST", "next": "OP_NEXT", "prev": "OP_PREV", "ge": "OP_GE", "le": "OP_LE"}
for _pi, (_n, _kl, _vl) in enumerate(LEN_PATTERNS):
    for _iv in (1, 2, 8):
        _q = (_pi in (5, 6) and _iv == 2) or (_pi == 7 and _iv == 1) or (_pi == 8 and _iv == 8) or (_pi in (0, 3) and _iv == 2)
        _nm = "c01_block_newf_i%d_p%d" % (_iv, _pi)
        GEN_BLOCK.append("block_new_fixed!(%s, %d, %d, %s, %s);" % (_nm, _iv, _n, _kl, _vl))
        HARNESSES.append(H("block::verif_h::" + _nm, ["C01", "C09", "C14", "C02", "C03"],
                           tier={"C01": "quick" if (_q or _pi == 1 and _iv == 2) else "thorough", "C09": "quick" if _q else "thorough",
                                 "C14": "quick" if (_pi in (1, 5) and _iv == 2) else "thorough", "*": "thorough"},
                           kind="D", layer="L2", timeout=900,
                           decides="ac_block_new ⊑ Block::new: loading `len ‖ block` (independent encoder) through &[u8] with the real decompress(None), "
                                   "std read_to_end and footer parsing recovers payload size, offset table (every interval-th entry, first 0) and "
                                   "every entry via entry_at with exact next offsets, consuming exactly the block",
                           functions=_BLOCK_FUNCS_NEW, bounds="n=%d entries, key lengths %s, value lengths %s (concrete), contents symbolic, interval %d" % (_n, _kl[:_n], _vl[:_n], _iv),
                           outside="symbolic block lengths (std read_to_end over a symbolic-length source exceeds 20 GB)"))
        if _n == 0 and _iv != 2:
            continue
        for _op in ("first", "last", "next", "prev", "ge", "le", "current"):
            if _op == "current" and _iv != 2:
                continue
            _pre = "c02" if _op in ("ge", "le") else "c03"
            _nm = "%s_blockf_%s_i%d_p%d" % (_pre, _op, _iv, _pi)
            GEN_BLOCK.append("block_op_fixed!(%s, %s, %d, %d, %s, %s);" % (_nm, _OPC[_op], _iv, _n, _kl, _vl))
            _props = ["C02", "C03"] if _op in ("ge", "le") else (["C03", "C01"] if _op in ("next", "prev", "last") else ["C03"])
            _qq = _q and _n >= 3
            HARNESSES.append(H("block::verif_h::" + _nm, _props, tier={_props[0]: "quick" if _qq else "thorough", "*": "thorough"}, kind="D+S", layer="L2", timeout=1200,
                               decides="AC ⊑ BlockCursor for `%s` over a real encoded block: from every abstract pre-position the real result equals the "
                                       "array-cursor model's (exact ceiling/floor/adjacent entry or None) and the post-position matches" % _op,
                               functions=_BLOCK_FUNCS_CUR + [_OPFN[_op]],
                               bounds="n=%d entries, key lengths %s, value lengths %s (concrete), contents symbolic and strictly ascending, pre-position "
                                      "symbolic, probe symbolic length 0..=3, interval %d; unwind 10" % (_n, _kl[:_n], _vl[:_n], _iv)))


def tier_of(h, pid):
    t = h["tier"]
    if isinstance(t, dict):
        return t.get(pid, t.get("*", "thorough"))
    return t


def harnesses_for(pid, tier, seed=0):
    hs = [h for h in HARNESSES if pid in h["props"]]
    if tier == "quick":
        hs = [h for h in hs if tier_of(h, pid) == "quick"]
    return hs


# ------------------------------------------------------------------------------------------- L3 glue (generated harnesses)
def D(*idx):
    return ("D", list(idx))


def I(*children):
    return ("I", list(children))


# name -> (levels, tree). Trees the real writer can produce: the root has <= 1 entry when levels >= 1, level 1 is a single
# block, only levels >= 2 are split. Leaves D(..) list indices into the sorted entry table.
LAYOUT_TREES = {
    "e0": (0, I()),
    "e2": (2, I()),
    "l0s": (0, I(D(0))),
    "l0a": (0, I(D(0, 1), D(2, 3))),
    "l0b": (0, I(D(0), D(1, 2), D(3))),
    "l1": (1, I(I(D(0, 1), D(2), D(3)))),
    "l2a": (2, I(I(I(D(0, 1), D(2)), I(D(3, 4))))),
    "l2b": (2, I(I(I(D(0)), I(D(1), D(2, 3))))),
    "l2c": (2, I(I(I(D(0, 1)), I(D(2, 3)), I(D(4))))),
    "l3": (3, I(I(I(I(D(0)), I(D(1))), I(I(D(2), D(3)))))),
}


def tree_str(t):
    if t[0] == "D":
        return "D(%s)" % ",".join(str(i) for i in t[1])
    return "I(%s)" % ",".join(tree_str(c) for c in t[1])


def tree_entries(t):
    if t[0] == "D":
        return list(t[1])
    out = []
    for c in t[1]:
        out += tree_entries(c)
    return out


LAYOUTS = {}  # name -> (rust const, levels, n entries, description)
for _i, (_name, (_lv, _tree)) in enumerate(LAYOUT_TREES.items()):
    LAYOUTS[_name] = ("LAY_%s" % _name.upper(), _lv, len(tree_entries(_tree)), "levels %d: %s" % (_lv, tree_str(_tree)))


def data_parents(tree):
    """-> list over the deepest index blocks of the lists of their data blocks' entry lists"""
    out = []

    def walk(t):
        if t[0] == "I":
            kids = [c for c in t[1] if c[0] == "D"]
            if kids:
                out.append([c[1] for c in kids])
            for c in t[1]:
                if c[0] == "I":
                    walk(c)
    walk(tree)
    return out


def layout_numbering(tree):
    """Block ids in the order build_layout creates them (DFS post-order). -> (root id, per-entry paths, blocks per level)
    path[i] = [(block, pos) for index level 0..levels] + [(data block, pos)]"""
    counter = [0]
    info = {}

    def walk(t, depth, trail):
        # trail: list of (parent node key, position in parent)
        if t[0] == "D":
            bid = counter[0]
            counter[0] += 1
            info[id(t)] = bid
            return bid
        for c in t[1]:
            walk(c, depth + 1, trail)
        bid = counter[0]
        counter[0] += 1
        info[id(t)] = bid
        return bid
    root = walk(tree, 0, [])
    paths = {}
    levels_blocks = {}

    def walk2(t, depth, trail):
        levels_blocks.setdefault(depth, []).append(info[id(t)])
        if t[0] == "D":
            for pos, e in enumerate(t[1]):
                paths[e] = trail + [(info[id(t)], pos)]
            return
        for pos, c in enumerate(t[1]):
            walk2(c, depth + 1, trail + [(info[id(t)], pos)])
    walk2(tree, 0, [])
    return root, paths, levels_blocks


def layout_rust():
    """Rust source of the layout constants, build_layout() and the path tables, generated from LAYOUT_TREES."""
    out = ["// generated by registry.py from LAYOUT_TREES (the native replayer builds real files from the same trees)"]
    for i, name in enumerate(LAYOUT_TREES):
        out.append("pub(crate) const %s: u8 = %d; // %s" % (LAYOUTS[name][0], i, LAYOUTS[name][3]))
    out.append("pub(crate) fn build_layout(id: u8, minlen: usize, maxlen: usize) -> Layout {")
    out.append("    match id {")
    names = list(LAYOUT_TREES)
    for i, name in enumerate(names):
        levels, tree = LAYOUT_TREES[name]
        n = len(tree_entries(tree))
        body = []
        counter = [0]

        def emit(t):
            if t[0] == "D":
                v = "b%d" % counter[0]
                counter[0] += 1
                idx = t[1]
                assert idx == list(range(idx[0], idx[0] + len(idx)))
                body.append("let %s = data_block(e + %d, %d);" % (v, idx[0], len(idx)))
                return v
            kids = [emit(c) for c in t[1]]
            assert len(kids) <= 4
            v = "b%d" % counter[0]
            counter[0] += 1
            body.append("let %s = index_block(&[%s], %d);" % (v, ", ".join(kids + ["0"] * (4 - len(kids))), len(kids)))
            return v
        root = emit(tree)
        pat = "_" if i == len(names) - 1 else LAYOUTS[name][0]
        out.append("        %s => {" % pat)
        out.append("            let e = add_entries(%d, minlen, maxlen);" % n if n else "            let e = 0usize; let _ = (e, minlen, maxlen);")
        out += ["            " + l for l in body]
        out.append("            Layout { id, root: %s, levels: %d, n: %d }" % (root, levels, n))
        out.append("        }")
    out.append("    }")
    out.append("}")
    # path tables: PATH_<L>[entry][level] = (block, pos); level levels+1 = data block
    out.append("pub(crate) const MAXDEPTH: usize = 5;")
    for name in names:
        levels, tree = LAYOUT_TREES[name]
        n = len(tree_entries(tree))
        root, paths, lb = layout_numbering(tree)
        rows = []
        for e in range(max(n, 1)):
            p = paths.get(e, [])
            p = p + [(0, 0)] * (5 - len(p))
            rows.append(("[" + ", ".join("%d" % bp[0] for bp in p) + "]", "[" + ", ".join("%d" % bp[1] for bp in p) + "]"))
        out.append("const PATHB_%s: [[usize; MAXDEPTH]; %d] = [%s];" % (name.upper(), max(n, 1), ", ".join(r[0] for r in rows)))
        out.append("const PATHP_%s: [[usize; MAXDEPTH]; %d] = [%s];" % (name.upper(), max(n, 1), ", ".join(r[1] for r in rows)))
        lrows = []
        for d in range(5):
            blks = lb.get(d, []) if n else ([root] if d == 0 else [])
            lrows.append((len(blks), "[%s]" % ", ".join(str(x) for x in (blks + [0] * 8)[:8])))
        out.append("const LEVELN_%s: [usize; MAXDEPTH] = [%s];" % (name.upper(), ", ".join(str(r[0]) for r in lrows)))
        out.append("const LEVELB_%s: [[usize; 8]; MAXDEPTH] = [%s];" % (name.upper(), ", ".join(r[1] for r in lrows)))
    out.append("/// (block id, position) at index level `lvl` (lvl = levels + 1: the data block) on the path to entry i")
    out.append("pub(crate) fn path_of(layout: u8, i: usize, lvl: usize) -> (usize, usize) {")
    out.append("    match layout {")
    for i, name in enumerate(names):
        pat = "_" if i == len(names) - 1 else LAYOUTS[name][0]
        out.append("        %s => (PATHB_%s[i][lvl], PATHP_%s[i][lvl])," % (pat, name.upper(), name.upper()))
    out.append("    }\n}")
    out.append("/// (number of blocks, block ids) of depth `lvl` (0 = root .. levels + 1 = data blocks)")
    out.append("pub(crate) fn level_blocks(layout: u8, lvl: usize) -> (usize, [usize; 8]) {")
    out.append("    match layout {")
    for i, name in enumerate(names):
        pat = "_" if i == len(names) - 1 else LAYOUTS[name][0]
        out.append("        %s => (LEVELN_%s[lvl], LEVELB_%s[lvl])," % (pat, name.upper(), name.upper()))
    out.append("    }\n}")
    return "\n".join(out) + "\n"


_OPRS = {"first": "Op::First", "last": "Op::Last", "next": "Op::Next", "prev": "Op::Prev", "reset": "Op::Reset",
         "current": "Op::Current", "clone": "Op::CloneSwitch"}
_FORK = {"first": "F_FIRST", "last": "F_LAST", "next": "F_NEXT", "prev": "F_PREV", "current": "F_CURRENT"}
_ABBR = {"first": "F", "last": "L", "next": "n", "prev": "p", "reset": "R", "current": "c", "clone": "K"}


def _op_rs(op):
    if op in _OPRS:
        return _OPRS[op]
    kind, arg = op.split(":")
    if kind == "fork":
        return "Op::Fork(%s)" % _FORK[arg]
    sel = "Q_SYM" if arg == "sym" else arg
    return "Op::%s(%s)" % ({"ge": "Ge", "le": "Le", "eq": "Eq"}[kind], sel)


def _op_abbr(op):
    if op in _ABBR:
        return _ABBR[op]
    kind, arg = op.split(":")
    if kind == "fork":
        return "Y" + _ABBR[arg]
    return {"ge": "G", "le": "E", "eq": "Q"}[kind] + ("s" if arg == "sym" else arg)


def schema_harness(prefix, layout, ops, minlen=1, maxlen=1, probe_max=2, unwind=None):
    """-> (fn name, rust source)"""
    name = "%s_%s_%s" % (prefix, layout, "".join(_op_abbr(o) for o in ops))
    const, levels, n, _ = LAYOUTS[layout]
    if unwind is None:
        unwind = max(9, len(ops) + 2)  # MAXE + 1 = 9 for the table loops; ops loop
    covers = ["valid || !valid"]
    if n >= 2 and any(o.endswith(":sym") for o in ops):
        covers += ["qr < rank(key_of(0))", "qr > rank(key_of(%d))" % (n - 1), "qr == rank(key_of(1))", "qr > rank(key_of(0)) && qr < rank(key_of(1))"]
    if n >= 1:
        covers += ["valid"]
    src = "glue_harness!(%s, %d, {\n    let ops = [%s];\n    let (qr, valid) = run_schema(%s, &ops, %d, %d, %d);\n    let _ = qr;\n%s});\n" % (
        name, unwind, ", ".join(_op_rs(o) for o in ops), const, minlen, maxlen, probe_max, "".join("    kani::cover!(%s);\n" % c for c in covers))
    return name, src


GLUE_FUNCS = ["ReaderCursor::new/reset/current/move_on_first/move_on_last/move_on_next/move_on_prev",
              "ReaderCursor::move_on_key_greater_than_or_equal_to/_lower_than_or_equal_to/_equal_to",
              "ReaderCursor::next_block_from_index/prev_block_from_index", "IndexBlockCursor::iter_index_blocks",
              "IndexBlockCursor::recursive_index_block", "IndexBlockCursor::initial_index_blocks", "Clone for ReaderCursor",
              "Reader::into_cursor"]
GLUE_STUBS = ["Block::new -> ac_block_new (abstract block = id; discharged by block::verif_h::c01_block_new_*)",
              "BlockCursor::{current,move_on_first,move_on_last,move_on_next,move_on_prev,move_on_key_lower_than_or_equal_to,"
              "move_on_key_greater_than_or_equal_to} -> array-cursor model ac_step (discharged against the real BlockCursor over "
              "real blocks by block::verif_h::c0{2,3}_block_*)",
              "source = ModelFile (Read+Seek returning the seek position; counts loads/seeks)"]

GEN_CURSOR = []  # (fn name, source)


def G(prefix, layout, ops, props, tier="quick", mem="light", timeout=1500, **kw):
    name, src = schema_harness(prefix, layout, ops, **{k: kw.pop(k) for k in ("minlen", "maxlen", "probe_max", "unwind") if k in kw})
    GEN_CURSOR.append((name, src))
    HARNESSES.append(H("reader::reader_cursor::verif_h::" + name, props, tier=tier, mem=mem, timeout=timeout, kind="H", layer="L3",
                       replay="native",
                       decides="history [%s] on a fresh cursor over %s: every result equals the entry determined by the sorted content "
                               "and the logical position; loads per op <= 2*(levels+2), each preceded by one absolute seek" % (
                                   ", ".join(ops), LAYOUTS[layout][3]),
                       functions=GLUE_FUNCS, stubs=GLUE_STUBS, schema=ops, layout=layout,
                       bounds="layout fixed (fan-out <= 3, <= 2 entries per data block), keys symbolic 1 byte strictly ascending, "
                              "one symbolic probe of length 0..=2; unwind from table size", **kw))
    return name


# ---- history schemas (H). Quick for C03: the block-crossing patterns on a layout with two blocks at a non-root level.
Q3 = {"C03": "quick", "*": "thorough"}
G("c03_hist", "l2a", ["first", "first", "next", "next", "next", "current", "first", "current"], ["C03", "C16"], tier={"C03": "quick", "C16": "quick"})
G("c03_hist", "l2a", ["last", "last", "prev", "prev", "current", "last"], ["C03", "C16"], tier=Q3)
G("c03_hist", "l2a", ["first", "next", "next", "next", "first", "ge:4"], ["C03", "C16"], tier=Q3)
G("c03_hist", "l2a", ["last", "prev", "prev", "last", "le:0"], ["C03", "C16"], tier=Q3)
G("c03_hist", "l2a", ["first", "next", "next", "next", "ge:sym"], ["C03", "C02", "C16"], tier=Q3)
G("c03_hist", "l2a", ["last", "prev", "prev", "le:sym"], ["C03", "C02", "C16"], tier=Q3)
G("c03_hist", "l2a", ["first", "next", "clone", "next", "next", "fork:next"], ["C03", "C16"], tier=Q3, mem="medium")
G("c03_hist", "l2a", ["last", "clone", "prev", "prev", "fork:prev", "reset", "next"], ["C03", "C16"], tier=Q3, mem="medium")
# base cases of the induction and reset
G("c03_hist", "l2a", ["next", "current", "reset", "prev", "current", "reset", "current"], ["C03", "C16"], tier=Q3)
G("c03_hist", "e2", ["next", "reset", "prev", "first", "last", "ge:sym", "le:sym", "reset", "current"], ["C03", "C02", "C01"], tier={"C03": "quick", "C01": "quick", "*": "thorough"})
G("c03_hist", "e0", ["first", "last", "eq:sym", "reset", "next"], ["C03", "C02", "C01"], tier="thorough")
# thorough: the same patterns on the other layouts, deeper trees, more crossings
for _lay, _n in (("l2b", 4), ("l2c", 5), ("l3", 4), ("l1", 4), ("l0b", 4)):
    G("c03_hist", _lay, ["first", "first"] + ["next"] * (_n - 1) + ["first", "ge:%d" % (_n - 1), "ge:0"], ["C03", "C16"], tier="thorough")
    G("c03_hist", _lay, ["last", "last"] + ["prev"] * (_n - 1) + ["last", "le:0", "le:%d" % (_n - 1)], ["C03", "C16"], tier="thorough")
    G("c03_hist", _lay, ["first"] + ["next"] * (_n - 1) + ["first", "ge:%d" % (_n - 1), "prev", "first"], ["C03", "C16"], tier="thorough")
    G("c03_hist", _lay, ["ge:%d" % (_n // 2), "clone", "next", "fork:next", "fork:prev"], ["C03", "C16"], tier="thorough", mem="medium")
G("c03_hist", "l2c", ["first", "next", "next", "next", "next", "first", "ge:2", "ge:4", "ge:0"], ["C03", "C16"], tier="thorough")
G("c03_hist", "l2c", ["last", "prev", "prev", "prev", "prev", "last", "le:2", "le:0", "le:4"], ["C03", "C16"], tier="thorough")

# ---- C12 read side: fault at the k-th seek/load (k symbolic)
def GF(layout, ops, max_io, tier="quick", mem="medium", timeout=2400):
    name = "c12_read_faults_%s_%s" % (layout, "".join(_op_abbr(o) for o in ops))
    src = "glue_harness!(%s, %d, {\n    let ops = [%s];\n    let (faulted, io) = run_schema_faults(%s, &ops, %d);\n    kani::cover!(faulted);\n    kani::cover!(!faulted && io >= 2);\n});\n" % (
        name, max(10, len(ops) + 2), ", ".join(_op_rs(o) for o in ops), LAYOUTS[layout][0], max_io)
    GEN_CURSOR.append((name, src))
    HARNESSES.append(H("reader::reader_cursor::verif_h::" + name, ["C12"], tier=tier, mem=mem, timeout=timeout, kind="H", layer="L3", replay="native",
                       mode="faultscan", layout=layout, vec_order=["entries"],
                       decides="history [%s] over %s with a source whose k-th seek/load fails (k in 1..=%d and the error kind symbolic): the call in progress "
                               "returns Err(Error::Io(kind)); earlier calls are unaffected; never Ok for the faulted call; no Err without a fault; no panic" % (
                                   ", ".join(ops), LAYOUTS[layout][3], max_io),
                       functions=GLUE_FUNCS + ["From<io::Error> for Error"], stubs=GLUE_STUBS + ["ModelFile fault injection (k-th I/O call fails)"],
                       bounds="fault index symbolic; keys symbolic 1 byte; one symbolic probe"))


def GSF(layout, forward, max_io, tier="quick", mem="medium", timeout=2400):
    name = "c12_step_faults_%s_%s" % ("next" if forward else "prev", layout)
    src = "glue_harness!(%s, 10, {\n    let (faulted, io) = step_move_faults(%s, %s, %d);\n    kani::cover!(faulted && io >= 3);\n    kani::cover!(faulted && io == 1);\n    kani::cover!(!faulted && io >= 2);\n});\n" % (
        name, LAYOUTS[layout][0], "true" if forward else "false", max_io)
    GEN_CURSOR.append((name, src))
    HARNESSES.append(H("reader::reader_cursor::verif_h::" + name, ["C12"], tier=tier, mem=mem, timeout=timeout, kind="S", layer="L3", replay="native",
                       mode="faultscan", layout=layout, vec_order=["entries"],
                       decides="one %s from EVERY RI-strong cursor state over %s while the k-th seek/load of the source fails (k in 1..=%d, kind symbolic): Err(Io(kind)) "
                               "iff the fault fired during the call, otherwise the adjacent entry; errors raised while reloading a parent index level are not "
                               "swallowed" % ("next" if forward else "prev", LAYOUTS[layout][3], max_io),
                       functions=GLUE_FUNCS + ["From<io::Error> for Error"], stubs=GLUE_STUBS + ["ModelFile fault injection"],
                       bounds="entry index, fault index and kind symbolic; keys symbolic 1 byte"))


GSF("l3", True, 6)
GSF("l3", False, 6)
GSF("l2a", True, 4, tier="thorough")
GSF("l2a", False, 4, tier="thorough")
GF("l0a", ["first"], 5)
GF("l0a", ["ge:sym"], 5)
GF("l0a", ["last"], 5)
GF("l0a", ["next"], 5)
GF("l1", ["first"], 7, tier="thorough")
GF("l1", ["ge:sym"], 7, tier="thorough")

# ---- C02: one seek with a symbolic probe on a fresh / reset cursor, every layout
for _lay in LAYOUT_TREES:
    for _op in ("ge", "le", "eq"):
        if _op == "le" and LAYOUTS[_lay][2] > 1:
            continue  # the whole <= seek with a symbolic probe exceeds 20 GB on multi-block layouts: decided as c02_lesplit_*
        _t = "quick" if ((_lay in ("l2a", "l0b") and _op != "le") or (_lay == "e2" and _op == "le")) else "thorough"
        G("c02_seek", _lay, ["%s:sym" % _op], ["C02", "C16"] + (["C10"] if _lay.startswith("l0") else []), tier={"C02": _t, "*": "thorough"},
          mem="heavy" if (_op == "le" and LAYOUTS[_lay][2] >= 1) else "light", timeout=3600 if _op == "le" else 1500)
G("c02_seek", "l2a", ["first", "next", "reset", "ge:sym"], ["C02", "C03"], tier="thorough")

# byte-string classes: keys of length 0..=2, probe 0..=3 (prefix / extension / empty / longer)
for _lay in ("l0a", "l1"):
    for _op in ("ge", "eq"):
        G("c02_seekb", _lay, ["%s:sym" % _op], ["C02"], tier={"C02": "quick" if (_lay == "l0a" and _op == "ge") else "thorough"}, minlen=0, maxlen=2, probe_max=3,
          mem="heavy" if _op == "le" else "medium", timeout=3600 if _op == "le" else 1500)

GEN_RANGE, GEN_PREFIX = [], []
CONTRACT_STUBS = ["ReaderCursor::move_on_key_greater_than_or_equal_to -> its contract (ceiling; RI-strong on Some, some RI-weak state on None), "
                  "discharged by c02_seek_* / c03_step_ge_*", "ReaderCursor::move_on_key_lower_than_or_equal_to -> its contract (floor), "
                  "discharged by c02_lesplit_* (real <= seek over the >= contract) and c02_seek_*_Es"]
ITER_FUNCS = {"range": ["RangeIter::new", "RangeIter::next", "range_iter::map_bound", "range_iter::end_contains"],
              "revrange": ["RevRangeIter::new", "RevRangeIter::next", "range_iter::map_bound", "range_iter::start_contains"],
              "prefix": ["PrefixIter::new", "PrefixIter::next"],
              "revprefix": ["RevPrefixIter::new", "RevPrefixIter::next", "prefix_iter::move_on_last_prefix", "prefix_iter::advance_key"]}


_RC = "crate::reader::reader_cursor::ReaderCursor::"


def contract_stubs(ge=None, le=None):
    """extra kani::stub metas replacing the >= / <= seek by one outcome of its contract"""
    out = []
    if ge:
        out.append("kani::stub(%smove_on_key_greater_than_or_equal_to, %sge_contract_%s)" % (_RC, _RC, ge))
    if le:
        out.append("kani::stub(%smove_on_key_lower_than_or_equal_to, %sle_contract_%s)" % (_RC, _RC, le))
    return "[" + ", ".join(out) + "]"


def GI(mode, layout, props, form="first", tier="quick", mem="light", timeout=1800, minlen=1, maxlen=1, probe_max=2, unwind=10, contract=None):
    """contract: None = real seeks; "some"/"none" = the initial seek replaced by that outcome of its contract"""
    rev = "true" if mode.startswith("rev") else "false"
    is_range = "range" in mode
    pre = "c04" if is_range else "c05"
    name = "%s_%s_%s%s_%s_k%d%d_p%d" % (pre, mode, form, ("c" + contract) if contract else "", layout, minlen, maxlen, probe_max)
    if contract:
        macro = "glue_harness_with"
        extra = contract_stubs(le=contract) if rev == "true" else contract_stubs(ge=contract)
    else:
        macro, extra = "glue_harness", None
    L = LAYOUTS[layout][0]
    args = "%s, %s, %d, %d, %d" % (L, rev, minlen, maxlen, probe_max)
    if form == "first":
        args += ", " + {None: "None", "some": "Some(true)", "none": "Some(false)"}[contract]
    if form == "whole":
        src = "glue_harness!(%s, %d, {\n    %s(%s);\n});\n" % (name, unwind, "range_check" if is_range else "prefix_check", args)
    else:
        fn = ("range_" if is_range else "prefix_") + form
        if is_range:
            covers = ["f.ka == 2 && f.kb == 2", "f.expect.is_none()", "f.expect.is_some() && f.ka == 0", "f.expect.is_some() && f.kb == 0"]
            if form == "first":
                covers += ["f.ka != 0 && f.kb != 0 && f.ra > f.rb", "f.ka == 1 && f.kb == 1 && f.ra == f.rb && f.expect.is_some()"]
                if rev == "false":
                    covers += ["f.ka == 2 && f.ra == rank(key_of(0))", "f.kb == 2 && f.rb < rank(key_of(0))"]
                else:
                    covers += ["f.kb == 2 && f.rb == rank(key_of(f.n - 1))", "f.ka == 2 && f.ra > rank(key_of(f.n - 1))"]
            else:
                covers += ["f.expect.is_none() && f.i > 0 && f.i + 1 < f.n"]
        else:
            covers = ["f.plen == 0", "f.expect.is_none()", "f.expect.is_some() && f.plen >= 1"]
            if form == "first":
                covers += ["f.expect.is_none() && f.plen >= 1 && f.pr < rank(key_of(0))", "f.expect.is_none() && f.pr > rank(key_of(f.n - 1))",
                           "f.plen >= 1 && f.last_byte == 0xFF", "f.expect.is_some() && f.pr == rank(key_of(f.expect.unwrap()))"]
                if probe_max >= 3:
                    covers += ["f.plen == 3"]
        if contract == "none":
            covers = ["f.expect.is_none()"]
        elif contract == "some":
            covers = [c for c in covers if "is_none" not in c or "is_some" in c] + ["f.expect.is_some()"]
        body = "    let f = %s(%s);\n%s    let _ = &f;\n" % (fn, args, "".join("    kani::cover!(%s);\n" % c for c in covers))
        if extra:
            src = "%s!(%s, %d, %s, {\n%s});\n" % (macro, name, unwind, extra, body)
        else:
            src = "%s!(%s, %d, {\n%s});\n" % (macro, name, unwind, body)
    (GEN_RANGE if is_range else GEN_PREFIX).append((name, src))
    mod = "reader::range_iter::verif_h::" if is_range else "reader::prefix_iter::verif_h::"
    what = ("in-range entries for symbolic bound kinds {Unbounded,Included,Excluded}^2 and symbolic bound strings (no ordering assumed)"
            if is_range else "entries whose key starts with the symbolic prefix")
    decides = {
        "whole": "%s iterator over %s: from a fresh iterator to the first None the yielded entries are exactly the %s, in order" % (mode, LAYOUTS[layout][3], what),
        "first": "%s iterator over %s, FIRST next() of a fresh iterator: yields the %s of the %s (or None), leaving the cursor in RI-strong on it" % (
            mode, LAYOUTS[layout][3], "last" if rev == "true" else "first", what),
        "step": "%s iterator over %s, any LATER next(): from every state whose cursor sits on the entry yielded last, yields the adjacent entry iff it "
                "belongs to the %s, else None (with `first` this is an induction over the whole iteration)" % (mode, LAYOUTS[layout][3], what),
    }[form]
    HARNESSES.append(H(mod + name, props, tier=tier, mem=mem, timeout=timeout, kind={"whole": "H", "first": "H", "step": "S"}[form], layer="L3",
                       replay="native", mode=mode, layout=layout, probe_spec=probe_max,
                       vec_order=["entries", "kind", "kind", "probe", "probe"] if is_range else ["entries", "probe"],
                       decides=decides, functions=ITER_FUNCS[mode] + GLUE_FUNCS, stubs=GLUE_STUBS + (CONTRACT_STUBS if contract else []),
                       assumes=["iteration = first call + later calls (induction); contiguity of the in-range / prefixed entries follows from sortedness"]
                       if form != "whole" else [],
                       bounds="keys symbolic length %d..=%d strictly ascending; bound/prefix strings symbolic length 0..=%d; layout fixed" % (minlen, maxlen, probe_max)))
    return name


HARNESSES.append(H("reader::range_iter::verif_h::c04_bounds_k", ["C04"], kind="K", layer="L0", timeout=900,
                   decides="end_contains/start_contains equal the lexicographic definition for all three bound kinds",
                   functions=["range_iter::end_contains", "range_iter::start_contains"],
                   bounds="key and bound strings symbolic length 0..=3; unwind 5"))
HARNESSES.append(H("reader::prefix_iter::verif_h::c05_advance_key", ["C05"], kind="K", layer="L0", timeout=900,
                   decides="advance_key(p) is None iff p is empty/all 0xFF; otherwise it is the least upper bound of the keys with prefix p",
                   functions=["prefix_iter::advance_key"], bounds="prefix length 0..=4, key length 0..=5, all symbolic; unwind 7"))
for _mode in ("range", "revrange"):
    GI(_mode, "l2a", ["C04"], form="step", probe_max=11)
    GI(_mode, "l0b", ["C04"], form="step", tier="thorough", probe_max=11)
    for _c in ("some", "none"):
        GI(_mode, "l2a", ["C04"], form="first", contract=_c, probe_max=11)
        GI(_mode, "l0b", ["C04"], form="first", contract=_c, tier="thorough", minlen=0, maxlen=2, probe_max=3)
    GI(_mode, "l2a", ["C04"], form="step", tier="thorough", minlen=0, maxlen=2, probe_max=3)
for _mode in ("prefix", "revprefix"):
    GI(_mode, "l2a", ["C05"], form="step", minlen=0, maxlen=2, probe_max=3)
    GI(_mode, "l0b", ["C05"], form="step", tier="thorough", minlen=0, maxlen=2, probe_max=3)
    for _c in ("some", "none"):
        GI(_mode, "l2a", ["C05"], form="first", contract=_c, minlen=0, maxlen=2, probe_max=3)
        GI(_mode, "l0b", ["C05"], form="first", contract=_c, tier="thorough", minlen=0, maxlen=2, probe_max=3)


_SOPS = {"first": "S_FIRST", "last": "S_LAST", "ge": "S_GE", "le": "S_LE", "eq": "S_EQ", "next": "S_NEXT", "prev": "S_PREV",
         "current": "S_CURRENT", "clonenext": "S_CLONE_NEXT", "cloneprev": "S_CLONE_PREV"}


def GS(op, layout, props, tier="quick", mem="light", timeout=1800, minlen=1, maxlen=1, probe_max=2, unwind=10, weak=False):
    is_abs = op in ("first", "last", "ge", "le", "eq")
    name = "c03_step_%s_%s%s" % (op, layout, "_weak" if weak else "")
    L = LAYOUTS[layout][0]
    n = LAYOUTS[layout][2]
    if is_abs:
        call = "step_abs(%s, %s, %d, %d, %d, %s)" % (L, _SOPS[op], minlen, maxlen, probe_max, "true" if weak else "false")
        covers = ["f.fresh", "!f.fresh && f.expect.is_some()"]
        if op in ("ge", "le", "eq") and n >= 2:
            covers += ["!f.fresh && f.expect.is_none()", "f.qr == rank(key_of(1))", "f.qr > rank(key_of(0)) && f.qr < rank(key_of(1))",
                       "f.expect == Some(f.n - 1)", "f.expect == Some(0)"]
        if n >= 1:
            covers += ["f.loads == 1", "f.loads as usize >= %d" % (LAYOUTS[layout][1] + 2)]
    elif op in ("next", "prev"):
        call = "step_move(%s, %s, %d, %d)" % (L, "true" if op == "next" else "false", minlen, maxlen)
        covers = ["f.expect.is_none()"]
        _parents = data_parents(LAYOUT_TREES[layout][1])
        if any(len(d) >= 2 for kids in _parents for d in kids):
            covers.append("f.expect.is_some() && f.loads == 0")   # a data block with two entries
        if any(len(kids) >= 2 for kids in _parents):
            covers.append("f.expect.is_some() && f.loads == 1")   # two data blocks under one index block
        if len(_parents) >= 2:
            covers.append("f.expect.is_some() && f.loads >= 2")   # crossing into another index block
    elif op == "current":
        call = "step_current(%s, %d, %d)" % (L, minlen, maxlen)
        covers = ["f.i == 0", "f.i + 1 == f.n"]
    else:
        call = "step_clone(%s, %s, %d, %d)" % (L, "true" if op == "clonenext" else "false", minlen, maxlen)
        covers = ["f.expect.is_none()"]
        if sum(len(k) for k in data_parents(LAYOUT_TREES[layout][1])) >= 2:
            covers.append("f.expect.is_some() && f.loads >= 1")
    src = "glue_harness!(%s, %d, {\n    let f = %s;\n%s    let _ = &f;\n});\n" % (
        name, unwind, call, "".join("    kani::cover!(%s);\n" % c for c in covers))
    GEN_CURSOR.append((name, src))
    HARNESSES.append(H("reader::reader_cursor::verif_h::" + name, props, tier=tier, mem=mem, timeout=timeout, kind="S", layer="L3",
                       replay="native", mode="search", vec_order=["entries", "probe"] if is_abs else ["entries"],
                       decides=("one `%s` from EVERY cursor state satisfying the representation invariant %s over %s: result = the entry the sorted "
                                "content determines, post-state satisfies RI-strong, loads <= 2*(levels+2); with the base case (fresh cursor) this "
                                "is an induction over histories of any length") % (
                                    op, ("RI-weak (any block of the right level loaded at each level, any positions, recorded offsets truthful or "
                                         "foreign, or fresh)" if weak else "RI-strong(i) for symbolic i, or fresh") if is_abs else "RI-strong(i), i symbolic",
                                    LAYOUTS[layout][3]),
                       functions=GLUE_FUNCS, stubs=GLUE_STUBS, layout=layout,
                       assumes=["RI is the inductive invariant of the cursor state (its base case and every step are registered harnesses)"],
                       bounds="layout fixed; keys symbolic %d..=%d bytes; probe symbolic 0..=%d bytes; file version symbolic" % (minlen, maxlen, probe_max)))
    return name


def GL(layout, cls, props, tier="quick", mem="light", timeout=1800, minlen=1, maxlen=1, probe_max=2, unwind=10, weak=False):
    cname = ["hit", "back", "none"][cls]
    name = "c02_lesplit_%s%s_%s_k%d%d_p%d" % (cname, "_weak" if weak else "", layout, minlen, maxlen, probe_max)
    _two = any(len(d) >= 2 for kids in data_parents(LAYOUT_TREES[layout][1]) for d in kids)
    covers = [["f.expect == Some(0)", "f.expect == Some(f.n - 1)"],
              ["f.expect.is_none()", "f.expect.is_some() && f.loads >= 1"] + (["f.expect.is_some() && f.loads == 0"] if _two else []),
              ["f.expect == Some(f.n - 1)"]][cls]
    extra = contract_stubs(ge="some" if cls < 2 else ("none_weak" if weak else "none"))
    src = "glue_harness_with!(%s, %d, %s, {\n    let f = le_split(%s, %d, %s, %d, %d, %d);\n%s    let _ = &f;\n});\n" % (
        name, unwind, extra, LAYOUTS[layout][0], cls, "true" if weak else "false", minlen, maxlen, probe_max,
        "".join("    kani::cover!(%s);\n" % c for c in covers))
    GEN_CURSOR.append((name, src))
    HARNESSES.append(H("reader::reader_cursor::verif_h::" + name, props, tier=tier, mem=mem, timeout=timeout, kind="S", layer="L3",
                       replay="native", mode="search", vec_order=["entries", "probe"], layout=layout,
                       decides="the real <= seek over the CONTRACT of the >= seek over %s, symbolic probe in the class `%s` (%s): returns the floor of "
                               "the probe and leaves RI-strong; the three classes together cover every probe" % (
                                   LAYOUTS[layout][3], cname, ["equal to a stored key", "a larger key exists but no equal one: step back from the ceiling",
                                                               "above every key: last entry"][cls]),
                       functions=["ReaderCursor::move_on_key_lower_than_or_equal_to", "ReaderCursor::move_on_prev", "ReaderCursor::move_on_last"] + GLUE_FUNCS,
                       stubs=GLUE_STUBS + CONTRACT_STUBS[:1],
                       assumes=["state left by a >= seek that found nothing: fresh, or RI-strong with the root level exhausted (quick) / any RI-weak state (_weak variants)"],
                       bounds="keys symbolic %d..=%d bytes; probe symbolic 0..=%d bytes" % (minlen, maxlen, probe_max)))


for _cls in (0, 1, 2):
    GL("l2a", _cls, ["C02", "C03"], mem="medium" if _cls == 2 else "light", tier={"C02": "quick", "*": "thorough"})
    GL("l0b", _cls, ["C02"], minlen=0, maxlen=2, probe_max=3, tier="quick" if _cls < 2 else "thorough", mem="medium" if _cls == 2 else "light")
    for _lay in ("l2b", "l2c", "l3", "l1"):
        GL(_lay, _cls, ["C02"], tier="thorough", mem="medium")


QS = {"C03": "quick", "C16": "quick", "C10": "quick", "C01": "quick", "*": "thorough"}
for _lay in ("l2a", "l2b", "l3", "l1", "l0b", "l2c"):
    _q = QS if _lay == "l2a" else "thorough"
    for _op in ("next", "prev", "current", "clonenext", "cloneprev"):
        GS(_op, _lay, ["C03", "C16", "C10"] + (["C01"] if _op in ("next", "prev") else []), tier=_q)
for _lay in ("l2a", "l1", "l0b"):
    for _op in ("first", "last"):
        GS(_op, _lay, ["C03", "C16", "C10"], mem="medium", tier={"C03": "quick", "*": "thorough"} if _lay == "l2a" else "thorough")
    for _op in ("first", "last", "ge"):
        if _lay != "l2a":
            continue
        GS(_op, _lay, ["C03", "C16", "C10"] + (["C02"] if _op == "ge" else []), tier="thorough", mem="heavy", timeout=3600, weak=True)


# ------------------------------------------------------------------------------------------- sorter / merger kernels
GEN_SORTER = []
ENT_FUNCS = ["EntryBoundAlignedBuffer::new/deref/deref_mut/drop (alloc/dealloc)", "Entries::with_capacity/insert/fits/remaining/entry_size/reallocate_buffer/"
             "sort_by_key/iter/clear/memory_usage/estimated_entries_memory_usage", "bytemuck::cast_slice/cast_slice_mut", "std slice sort_by_key / sort_unstable_by_key"]
HARNESSES.append(H("merger::verif_h::c06_entry_order", ["C06"], kind="K", layer="L3", timeout=900, replay="native", mode="mergesearch", layout="l0s",
                   vec_order=["entries", "entries", "entries"],
                   decides="Ord/PartialOrd/Eq for merger::Entry over three sources positioned on symbolic keys (any overlap) and symbolic source indices: the "
                           "heap order is exactly the reverse of the lexicographic order on (current key, source index), so equal keys pop in the order their "
                           "sources were added",
                   functions=["Ord/PartialOrd/PartialEq for merger::Entry", "ReaderCursor::current"], stubs=GLUE_STUBS,
                   bounds="keys symbolic length 0..=2, source indices 0..8"))

# ------------------------------------------------------------------------------------------- BlockWriter units
GEN_BW = []
BW_FUNCS = ["BlockWriter::insert", "BlockWriter::finish", "BlockWriter::reset", "BlockWriter::current_size_estimate", "BlockWriter::last_key",
            "BlockWriterBuilder::build/index_key_interval", "Drop for BlockBuffer", "varint_encode32"]
BW_PATTERNS = [  # (n, key lengths, value lengths, interval, entries in the second block built with the same writer)
    (0, [0, 0, 0], [0, 0, 0], 2, 1),
    (1, [0, 0, 0], [0, 0, 0], 1, 1),
    (2, [1, 2, 0], [2, 0, 0], 1, 1),
    (2, [1, 2, 0], [2, 0, 0], 2, 2),
    (3, [0, 1, 2], [2, 0, 1], 1, 2),
    (3, [1, 2, 2], [0, 1, 2], 2, 1),
    (3, [2, 2, 2], [8, 8, 8], 2, 3),
    (3, [1, 1, 1], [0, 0, 0], 8, 3),
]
for _i, (_n, _kl, _vl, _iv, _n2) in enumerate(BW_PATTERNS):
    _name = "c09_block_ref_p%d_i%d" % (_i, _iv)
    GEN_BW.append("""#[kani::proof]
#[kani::unwind(10)]
fn %s() {
    block_ref_check(%d, %s, %s, %d, %d);
}
""" % (_name, _n, _kl, _vl, _iv, _n2))
    _q = _i in (3, 4, 5, 7)
    HARNESSES.append(H("block_writer::verif_h::" + _name, ["C09", "C15", "C01", "C02", "C14", "C18"],
                       tier={"C09": "quick" if _q else "thorough", "C15": "quick" if _q else "thorough",
                             "C01": "quick" if _i in (3, 4) else "thorough", "C02": "quick" if _i in (3, 4) else "thorough", "*": "thorough"},
                       kind="D", layer="L2", timeout=1200,
                       decides="real BlockWriter = reference encoding: size estimate after every insert = payload + 8 x offsets + 4 = exact finished length; "
                               "finished bytes (varint framing, key/value bytes, offset table every interval entries starting at 0, u32 BE count) equal the "
                               "independent encoder at every position (one symbolic position per query); a second block built with the same writer after "
                               "finish is encoded like a fresh one (reset)",
                       functions=BW_FUNCS,
                       bounds="first block %d entries, second %d; key lengths %s, value lengths %s (concrete), contents symbolic; interval %d" % (_n, _n2, _kl, _vl, _iv)))
for _i, (_n, _kl, _vl, _iv, _n2) in enumerate(BW_PATTERNS):
    if _i in (0, 1):
        continue
    _name = "c09_d047_block_p%d_i%d" % (_i, _iv)
    GEN_BW.append("""#[kani::proof]
#[kani::unwind(10)]
fn %s() {
    d047_block_check(%d, %s, %s, %d);
}
""" % (_name, _n, _kl, _vl, _iv))
    HARNESSES.append(H("block_writer::verif_h::" + _name, ["C09"], tier="quick" if _i in (4, 6) else "thorough", kind="D", layer="L2", timeout=1200,
                       decides="differential against the frozen grenad 0.4.7 sources (copied from the cargo registry on every run): the current BlockWriter and "
                               "0.4.7's BlockWriter emit identical block bytes (and size estimates) for the same entries",
                       functions=BW_FUNCS + ["grenad 0.4.7 BlockWriter::insert/finish (frozen)"],
                       bounds="%d entries, key lengths %s, value lengths %s (concrete), contents symbolic, interval %d" % (_n, _kl[:_n], _vl[:_n], _iv)))
HARNESSES.append(H("block_writer::verif_h::c09_d047_trailer", ["C09", "C10"], kind="D", layer="L2", timeout=1200,
                   decides="differential against frozen grenad 0.4.7: Metadata::write_into emits identical trailers (V2 and V1, all field values) and each "
                           "version's read_from parses the other's trailer to the same fields",
                   functions=["Metadata::write_into", "Metadata::read_from", "grenad 0.4.7 Metadata::write_into/read_from (frozen)"],
                   bounds="all u64 offsets/counts, all u8 levels, codec ids 0..=5, both file versions"))
for _nm, _d in (("c18_block_order_panics", "second insert with a key <= the first PANICS (should_panic; key lengths symbolic 0..=2)"),
                ("c18_block_order_accepts", "second insert with a strictly greater key is accepted"),
                ("c18_block_order_after_reset", "after finish / reset any key is accepted again")):
    HARNESSES.append(H("block_writer::verif_h::" + _nm, ["C18"], kind="K", layer="L2", timeout=900, should_panic=(_nm.endswith("panics")),
                       decides="C18: " + _d, functions=["BlockWriter::insert", "BlockWriter::finish", "BlockWriter::reset"],
                       bounds="two keys of symbolic length 0..=2 and symbolic content"))

# ------------------------------------------------------------------------------------------- L1 writer
GEN_WRITER = []
WRITER_FUNCS = ["Writer::insert", "Writer::into_inner", "CountWrite::write/count/into_inner/new", "std Write::write_all"]
# (n, key lengths, value lengths, block threshold, interval, levels)
WRITER_CFGS = [
    ("empty_l0", 0, [0, 0, 0, 0], [0, 0, 0, 0], 24, 2, 0, True),
    ("empty_l2", 0, [0, 0, 0, 0], [0, 0, 0, 0], 24, 2, 2, True),
    ("one_l0", 1, [1, 0, 0, 0], [1, 0, 0, 0], 24, 8, 0, True),
    ("two_nocut_l1", 2, [0, 2, 0, 0], [2, 0, 0, 0], 64, 2, 1, True),
    ("three_cut_l0_i1", 3, [1, 1, 2, 0], [1, 0, 2, 0], 20, 1, 0, True),
    ("four_cut_l0_i2", 4, [1, 2, 2, 2], [0, 1, 1, 2], 22, 2, 0, False),
    ("four_cut_l1_i2", 4, [1, 1, 1, 2], [1, 1, 1, 1], 22, 2, 1, True),
    ("four_cut_l2_i1", 4, [1, 1, 1, 1], [1, 1, 1, 1], 16, 1, 2, True),   # every entry its own block; level-2 blocks cut too
    ("four_cut_l2_i8", 4, [2, 2, 2, 2], [0, 0, 0, 0], 30, 8, 2, False),
    ("eq_cut_l2_i1", 4, [1, 1, 1, 1], [1, 1, 1, 1], 23, 1, 2, True),        # a level-2 index block reaches the threshold EXACTLY (23 bytes)
    ("eq_cut_data_l1", 3, [1, 1, 1, 0], [1, 1, 1, 0], 16, 8, 1, True),       # a data block reaches the threshold exactly (4 + 12)
    ("four_cut_l3_i1", 4, [1, 1, 1, 1], [0, 0, 0, 0], 16, 1, 3, True),   # two index levels cut in the same insert
    ("big_entry_l1", 2, [2, 2, 0, 0], [2, 2, 0, 0], 13, 2, 1, False),       # every entry alone exceeds the block threshold
]
for _nm, _n, _kl, _vl, _b, _iv, _lv, _q in WRITER_CFGS:
    _name = "c01_writer_ref_" + _nm
    GEN_WRITER.append("""writer_harness!(%s, {
    let f = writer_ref_check(%d, %s, %s, %d, %d, %d);
    kani::cover!(f.len >= 22);
    kani::cover!(f.nblocks >= 1);
});
""" % (_name, _n, _kl, _vl, _b, _iv, _lv))
    HARNESSES.append(H("writer::verif_h::" + _name, ["C01", "C09", "C15", "C13", "C11"], replay="writer",
                       wcfg=(_n, _kl, _vl, _b, _iv, _lv),
                       tier={"C01": "quick" if _q else "thorough", "C09": "quick" if _q else "thorough", "C15": "quick" if _q else "thorough", "*": "thorough"},
                       kind="D", layer="L1", timeout=2400, mem="medium",
                       decides="Ref = Writer: the real writer's byte stream (through a comparing sink) equals the independent reference encoding of the V2 "
                               "format for symbolic key/value contents: length-prefixed blocks, varint framing, offset tables, index entries "
                               "(last key -> child offset, u64 BE) per level, blocks cut exactly when the size estimate reaches the threshold (levels >= 2 too, "
                               "0 and 1 never), 22-byte trailer last; entries_count = inserts; exactly one flush",
                       functions=WRITER_FUNCS,
                       stubs=["BlockWriter::{insert,current_size_estimate,last_key} -> abstract block writer (no heap; discharged by c09_block_ref_*)",
                              "compress_and_write_block -> abs_cwb (compares length prefix and every framed entry with the reference stream at the "
                              "running position; advances the real CountWrite)", "Metadata::write_into -> trailer field comparison (bytes: c09_trailer_bytes_v2)",
                              "sink = CountSink"],
                       bounds="%d entries, key lengths %s, value lengths %s (concrete), contents symbolic strictly ascending; block threshold %d (field set "
                              "directly), interval %d, index_levels %d; unwind 10" % (_n, _kl[:_n], _vl[:_n], _b, _iv, _lv),
                       outside="real BlockWriters inside the real Writer (exceeds 20 GB from two inserts or two index levels on), symbolic lengths, codecs, > 4 entries"))


CWB_FUNCS = ["writer::compress_and_write_block", "compression::compress(None)", "BlockWriter::insert/finish/reset", "CountWrite::write/count/into_inner/flush",
             "byteorder write_u64", "std Write::write_all"]
for _nm, _chop, _faults, _n, _kl, _vl, _iv, _props, _q, _mb in [
        ("c09_cwb_unit_2e_i1", False, False, 2, [1, 2], [2, 1], 1, ["C09", "C01", "C11"], True, 48),
        ("c09_cwb_unit_empty", False, False, 0, [0, 0], [0, 0], 8, ["C09", "C01"], True, 16),
        ("c11_cwb_chop_empty", True, False, 0, [0, 0], [0, 0], 8, ["C11"], True, 12),
        ("c11_cwb_chop_1e", True, False, 1, [1, 0], [1, 0], 8, ["C11"], False, 16),
        ("c12_cwb_fault_1e", False, True, 1, [1, 0], [1, 0], 2, ["C12"], False, 16),
        ("c12_cwb_fault_empty", False, True, 0, [0, 0], [0, 0], 8, ["C12"], True, 12),
        ("c12_cwb_fault_chop_empty", True, True, 0, [0, 0], [0, 0], 8, ["C12", "C11"], False, 12)]:
    _covers = ["f.total >= 20"]
    if _chop:
        _covers += ["f.calls >= 4", "f.interrupted"]
    if _chop and not _faults:
        _covers += ["f.calls >= 8"]
    if _faults:
        _covers += ["f.faulted", "!f.faulted"]
    GEN_WRITER.append("""#[kani::proof]
#[kani::unwind(%d)]
fn %s() {
    let f = cwb_unit::<%s, %s, %d>(%d, %s, %s, %d);
%s}
""" % (_mb + 2, _nm, "true" if _chop else "false", "true" if _faults else "false", _mb, _n, _kl, _vl, _iv, "".join("    kani::cover!(%s);\n" % c for c in _covers)))
    HARNESSES.append(H("writer::verif_h::" + _nm, _props, tier="quick" if _q else "thorough", kind="D" if not (_chop or _faults) else "H", layer="L1",
                       timeout=1800, mem="medium",
                       decides="the REAL compress_and_write_block over a real BlockWriter and CountWrite emits exactly len(u64 BE) ‖ finished block and resets the "
                               "block writer" + ("; with a sink that accepts an arbitrary 1..=len prefix of every write and reports up to 2 interruptions the "
                                                 "concatenation of accepted bytes is the same stream and CountWrite counts exactly the accepted bytes" if _chop else "") +
                               ("; when the j-th write/flush fails (j symbolic) the call returns Err carrying that failure, never Ok; no error without a fault" if _faults else ""),
                       functions=CWB_FUNCS, stubs=["sink = USink (comparing / chopping / failing)"],
                       bounds="%d entries, key lengths %s, value lengths %s (concrete), contents symbolic, interval %d" % (_n, _kl[:_n], _vl[:_n], _iv)))
for _nm, _n, _kl, _vl, _b, _iv, _lv, _mc, _q in [
        ("c12_writer_fault_l0", 3, [1, 1, 2, 0], [1, 0, 2, 0], 20, 1, 0, 11, False),
        ("c12_writer_fault_l0_1e", 1, [1, 0, 0, 0], [1, 0, 0, 0], 64, 8, 0, 9, True),   # 2 blocks + 5 trailer writes + flush = 8 calls
        ("c12_writer_fault_l2", 2, [1, 1, 0, 0], [1, 1, 0, 0], 16, 1, 2, 14, False)]:
    GEN_WRITER.append("""writer_harness_faults!(%s, {
    let (failed, calls) = writer_fault_check(%d, %s, %s, %d, %d, %d, %d);
    kani::cover!(failed);
    kani::cover!(!failed && calls >= 3);
});
""" % (_nm, _n, _kl, _vl, _b, _iv, _lv, _mc))
    HARNESSES.append(H("writer::verif_h::" + _nm, ["C12"], tier="quick" if _q else "thorough", kind="H", layer="L1", timeout=2400, mem="medium",
                       replay="writer_fault", wcfg=(_n, _kl, _vl, _b, _iv, _lv),
                       decides="real Writer::insert / into_inner over abstract block writers with a sink whose j-th write/flush fails (j symbolic over every call "
                               "of the scenario): the public call in progress returns Err(PermissionDenied), earlier calls Ok, never Ok for the faulted call, "
                               "no Err without a fault, no panic",
                       functions=WRITER_FUNCS + ["CountWrite::flush"], stubs=["abstract block writers", "compress_and_write_block -> abs_cwb (propagates the sink's "
                                                                             "error through the real write_all/CountWrite)", "sink = FailCount"],
                       bounds="%d inserts, block threshold %d, interval %d, index_levels %d, fault index 1..=%d" % (_n, _b, _iv, _lv, _mc)))
HARNESSES.append(H("writer::verif_h::c11_countwrite", ["C11"], kind="K", layer="L0", timeout=300,
                   decides="CountWrite::write adds exactly the number of bytes the inner writer accepted (any Ok(n <= len)) and nothing on Err",
                   functions=["CountWrite::write", "CountWrite::count", "CountWrite::new"], bounds="buffer length 0..=16, accepted length any usize, failure symbolic"))
for _lv in (0, 3):
    HARNESSES.append(H("writer::verif_h::c01_depth_%d" % _lv, ["C01"], kind="K", layer="L1", timeout=900, replay="writer", wcfg=(0, [0] * 4, [0] * 4, 1024, 8, _lv),
                       decides="finishing an empty writer with %d index levels: no arithmetic overflow, exactly one (empty root) block at offset 0, "
                               "trailer records %d levels" % (_lv, _lv),
                       functions=["Writer::into_inner"], stubs=["abstract block writers, abs_cwb, trailer recorder"],
                       bounds="index_levels = %d (255 does not finish: 256 loop iterations exceed 20 GB; the index_levels(255) overflow fixed by "
                              "d9d2b5f is reproduced natively only)" % _lv))
HARNESSES.append(H("writer::verif_h::c15_clamp", ["C15"], kind="K", layer="L0", timeout=300,
                   decides="WriterBuilder::block_size(s) stores max(1024, s) for every usize s; the default is 8192 (real constants, no override)",
                   functions=["WriterBuilder::block_size", "WriterBuilder::new"], bounds="s: all usize"))


def generate(kit_dst):
    with open(os.path.join(kit_dst, "sorter_gen.rs"), "w") as f:
        f.write("// generated by registry.py\n" + "\n".join(GEN_SORTER))
    with open(os.path.join(kit_dst, "block_writer_gen.rs"), "w") as f:
        f.write("// generated by registry.py from BW_PATTERNS\n" + "\n".join(GEN_BW))
    with open(os.path.join(kit_dst, "writer_gen.rs"), "w") as f:
        f.write("// generated by registry.py from WRITER_CFGS\n" + "\n".join(GEN_WRITER))
    with open(os.path.join(kit_dst, "layout_gen.rs"), "w") as f:
        f.write(layout_rust())
    with open(os.path.join(kit_dst, "block_gen.rs"), "w") as f:
        f.write("// generated by registry.py from LEN_PATTERNS\n" + "\n".join(GEN_BLOCK) + "\n")
    with open(os.path.join(kit_dst, "layout_consts_gen.rs"), "w") as f:
        for i, name in enumerate(LAYOUT_TREES):
            f.write("#[allow(dead_code)]\npub(crate) const %s: u8 = %d;\n" % (LAYOUTS[name][0], i))
    for fname, lst in (("range_gen.rs", GEN_RANGE), ("prefix_gen.rs", GEN_PREFIX)):
        with open(os.path.join(kit_dst, fname), "w") as f:
            f.write("// generated by registry.py\n")
            for _, src in lst:
                f.write(src)
    with open(os.path.join(kit_dst, "cursor_gen.rs"), "w") as f:
        f.write("// generated by registry.py from the schema table\n")
        for _, src in GEN_CURSOR:
            f.write(src)



def writer_replay(h, tests, decode, ov, scratch, env, run_test):
    """Native replay of an L1 counterexample: a generated #[test] calling writer::verif_h::native_writer_replay with the
    counterexample's concrete entries (real Writer + real BlockWriters, no stubs)."""
    n, kl, vl, b, iv, lv = h["wcfg"]
    log = []
    for t in tests[:3]:
        vecs = decode(t)
        if len(vecs) < 16:
            vecs = vecs + [[0]] * (16 - len(vecs))
        ks = [[vecs[4 * i][0], vecs[4 * i + 1][0]] for i in range(4)]
        vs = [[vecs[4 * i + 2][0], vecs[4 * i + 3][0]] for i in range(4)]
        if h.get("replay") == "writer_fault":
            fa = int.from_bytes(bytes(vecs[16]), "little") if len(vecs) > 16 else 1
            call = "native_writer_fault_replay(%d, %s, %s, %d, %d, %d, %s, %s, %d);" % (n, kl, vl, b, iv, lv, ks, vs, fa)
        else:
            call = "native_writer_replay(%d, %s, %s, %d, %d, %d, %s, %s);" % (n, kl, vl, b, iv, lv, ks, vs)
        name = "gv_native_replay_%s_%d" % (h["name"].split("::")[-1], len(log))
        src = "\n#[test]\nfn %s() {\n    %s\n}\n" % (name, call)
        ok, rlog = run_test(os.path.join(ov, "verif_kit", "writer_h.rs"), src, name)
        log.append("--- generated native test (real Writer, real BlockWriters, no stubs):" + src + rlog)
        if ok is True and "REPLAY-INVALID" not in rlog:
            return True, "\n".join(log)
    return False, "\n".join(log)


_REPLAYER_LOCK = __import__("threading").Lock()


def build_replayer(ov, scratch, env):
    """Build /verif/replayer against the overlay copy of the current tree (public API, no cfg). -> binary path or None."""
    import shutil
    import subprocess
    with _REPLAYER_LOCK:
        d = os.path.join(scratch, "replayer")
        binp = os.path.join(d, "target", "debug", "gv-replayer")
        if os.path.exists(binp):
            return binp, ""
        shutil.rmtree(d, ignore_errors=True)
        shutil.copytree(os.path.join(os.path.dirname(__file__), "replayer"), d)
        toml = open(os.path.join(d, "Cargo.toml.in")).read().replace("@GRENAD@", ov)
        open(os.path.join(d, "Cargo.toml"), "w").write(toml)
        lock = os.path.join(ov, "Cargo.lock")
        if os.path.exists(lock):
            shutil.copy(lock, os.path.join(d, "Cargo.lock"))
        p = subprocess.run(["cargo", "build", "--offline", "-q"], cwd=d, env=env, capture_output=True, text=True)
        if p.returncode != 0 and os.path.exists(os.path.join(d, "Cargo.lock")):
            os.remove(os.path.join(d, "Cargo.lock"))
            p = subprocess.run(["cargo", "build", "--offline", "-q"], cwd=d, env=env, capture_output=True, text=True)
        if p.returncode != 0:
            return None, "replayer build failed:\n" + p.stderr[-2000:]
        return binp, ""


def _hexs(bs):
    return "".join("%02x" % b for b in bs) or "-"


def spec_from_vectors(h, vecs):
    """Map Kani's concrete-playback vectors (one per kani::any() call, program order) onto the harness inputs."""
    levels, tree = LAYOUT_TREES[h["layout"]]
    n = len(tree_entries(tree))
    it = iter(vecs)

    def usize():
        return int.from_bytes(bytes(next(it)), "little")

    def byte():
        return next(it)[0]
    lines = ["levels %d" % levels, "version %d" % h.get("version", 2), "interval %d" % h.get("interval", 1),
             "tree " + tree_str(tree)]
    kl = 2
    kinds, probes = [], []
    for tok in h.get("vec_order", ["entries", "probe"]):
        if tok == "entries":
            for _ in range(1 if h.get("mode") == "mergesearch" else n):
                ln = usize()
                kb = [byte() for _ in range(kl)]
                lines.append("key " + _hexs(kb[:ln]))
        elif tok == "kind":
            kinds.append("UIE"[byte()])
        elif tok == "probe":
            pb = [byte() for _ in range(3)]
            ps = h.get("probe_spec", 2)
            ln = (ps - 10) if ps >= 10 else usize()  # probe_spec >= 10: exact length, no symbolic length in the vector
            probes.append(_hexs(pb[:ln]))
    for j, pr in enumerate(probes):
        lines.append("probe%s %s" % ("" if j == 0 else "2", pr))
    mode = h.get("mode", "cursor")
    if mode == "cursor":
        lines.append("ops " + " ".join(h["schema"]))
    elif mode == "search":
        if not probes:
            lines.append("probe -")
        lines.append("mode search 6")
    elif mode == "mergesearch":
        lines.append("mode mergesearch")
    elif mode == "faultscan":
        lines.append("mode faultscan")
    else:
        lines.append("mode %s %s" % (mode, " ".join(kinds)))
    return "\n".join(lines) + "\n"


def native_replay(h, tests, decode, ov, scratch, env):
    import subprocess
    if "layout" not in h:
        return None, "native replayer not available for this harness"
    binp, msg = build_replayer(ov, scratch, env)
    if not binp:
        return None, msg
    log = []
    for t in tests[:4]:
        try:
            spec = spec_from_vectors(h, decode(t))
        except (StopIteration, IndexError) as e:
            log.append("could not map playback vectors onto harness inputs: %r" % (e,))
            continue
        sp = os.path.join(scratch, "spec_%s_%d.txt" % (h["name"].split("::")[-1], len(log)))
        open(sp, "w").write(spec)
        p = subprocess.run([binp, sp], capture_output=True, text=True, timeout=120)
        log.append("--- replay spec (real bytes built by an independent encoder, run through the public API):\n" + spec + p.stdout + p.stderr[-1500:])
        if p.returncode == 1 and "REPRODUCED" in p.stdout:
            return True, "\n".join(log)
    return False, "\n".join(log)


# ------------------------------------------------------------------------------------------------ manifest data
TECH = "bounded model checking of the real code: Kani 0.68 -> CBMC 6.11 -> CaDiCaL over symbolic inputs, counterexamples replayed natively"

PROPS = {
    "C13": dict(claimed=True, design="§5 C13",
                text="Solver-decided for every byte string of length 0..=48 (length and content symbolic): Reader::new never panics and "
                     "returns Ok exactly when the string ends in a complete V1/V2 trailer with a known codec id, the predicate being "
                     "written independently over the raw bytes. Bounded model checking is the right level: the input space is finite "
                     "per length and the code is loop-free integer/byte logic, so the bound (48 bytes > trailer + 26 bytes of body) "
                     "covers every truncation/corruption class; longer files rely on open touching only the last 22 bytes (c16_open_io).",
                note="Kani/CBMC/CaDiCaL trusted; std::io::Cursor and byteorder are executed, not modelled; lengths > 48 outside."),
    "C14": dict(claimed=True, design="§5 C14",
                text="All 2^32 length values decided in one solver query against an independent LEB128 (length, shortest form, exact "
                     "bytes, decode of encoding‖junk returns the value and consumes exactly the encoding); framing use on write/read "
                     "decided for entries with value lengths 127 / 128 / 129 (real BlockWriter -> real entry_at) and for zero-length keys and values.",
                note="Entries materialised at 2^14/2^21/2^28 are outside (arrays of 16 KiB..256 MiB are not encodable); there the claim is "
                     "the codec kernel plus the framing harness showing framing uses only the codec's value and consumed length."),
    "C10": dict(claimed=True, design="§5 C10",
                text="Every byte string ending in a V1 trailer opens as FormatV1 with the fields at the V1 positions (all field values "
                     "symbolic); write_into(V1) is its inverse; cursor/iterator glue is shown not to depend on the file version.",
                note="V1 files with real codecs are outside (codecs not encodable). No V1 writer exists; the reference encoder provides the trailer."),
    "C01": dict(claimed=True, design="§5 C01",
                text="Decided as a chain of solver-checked refinements instead of one run (the two-entry write->read pipeline does not terminate under CBMC): "
                     "(L1) the real Writer::insert/into_inner over abstract block writers emits exactly the reference encoding's blocks, offsets and trailer "
                     "fields for symbolic contents and configurations with cuts at every level; (L2) the real BlockWriter = reference block bytes and the real "
                     "Block::new/entry_at/BlockCursor recover every entry of reference blocks; (L3) the real cursor glue scans AC-files forward and backward "
                     "exactly (step induction from every state + fresh base case, empty files at depth 0 and 2); trailer round trip for all field values.",
                note="Composition (Ref links L1 and L2, AC links L2 and L3) is the stated paper step. Codecs other than None, > 4 entries through the writer, "
                     "entries >= 128 bytes and index_levels 4..255 through into_inner are outside."),
    "C09": dict(claimed=True, design="§5 C09",
                text="Byte-level conformance to an independent encoder written from the format text: block bytes (framing, offset table, count) from the real "
                     "BlockWriter; block sequence, length prefixes, index entries (last key -> u64 BE offset) and stream positions from the real Writer logic; "
                     "the 22 trailer bytes from the real Metadata::write_into; the independent decoder side is the real Block::new over reference bytes.",
                note="grenad 0.4.7: block-writer and trailer differentials against the frozen 0.4.7 sources (its block.rs/varint.rs/metadata.rs are byte-identical "
                     "to the pinned tree, so the reader side is covered by the reference-bytes harnesses); 0.4.7's file-level Writer/Reader glue is not executed; codecs outside."),
    "C15": dict(claimed=True, design="§5 C15",
                text="Clamp decided for every usize at the real constant; size estimate = exact finished size (real BlockWriter); cut rule decided on the real "
                     "Writer logic: the emitted layout equals the reference layout, in which every data block and every index block below level 1 reaches "
                     "the threshold only with its last entry.",
                note="Threshold scaled through the private field (12..64 bytes) so that 1-2 byte entries cut blocks; the 1024 clamp is checked separately."),
    "C18": dict(claimed=True, design="§5 C18",
                text="The strict-order assertion of the real BlockWriter::insert decided for all pairs of keys of length 0..=2 (panics on every path iff the "
                     "second key is not greater; accepted otherwise; cleared by finish/reset); index blocks receive child last keys through the same checked "
                     "insert (abstract writers mirror the assertion, the writer harnesses run with strictly ascending inserts).",
                note="Out-of-order inserts through the whole Writer are covered by composition (data and index inserts all go through BlockWriter::insert), not run."),
    "C11": dict(claimed=True, design="§5 C11",
                text="Write side: CountWrite counts exactly what the inner writer accepted (kernel, any accepted length or Err); the real "
                     "compress_and_write_block over a chopping/interrupting sink emits the same stream and the same count as over a whole-buffer sink; the "
                     "stream is a pure function of configuration and entries (equals the reference encoding, C01/C09 harnesses, the solver ranges over all "
                     "contents). Read side: claimed only for the trailer (read_exact over every byte string, C13) - see note.",
                note="Read-side splitting of block bodies (std read_to_end over a short-reading source) is outside: symbolic-length reads exceed the solver's "
                     "memory; chopped writes are bounded to accepts of at least half the offered buffer and <= 2 interruptions per call."),
    "C12": dict(claimed=True, design="§5 C12",
                text="Fault index as a symbolic variable: the j-th write/flush of the sink (real compress_and_write_block; real Writer::insert/into_inner over "
                     "abstract block writers) and the k-th seek/load of the source (real cursor glue) fail: the call in progress returns Err carrying the "
                     "failure, earlier calls are unaffected, never Ok for the faulted call, no Err without a fault, no panic; convert_merge_error kernel.",
                note="Sorter facet (added): the MIR->SMT engine decides failure PROPAGATION in Sorter::{insert, write_chunk, merge_chunks, write_into_stream_writer, "
                     "into_stream_merger_iter, into_reader_cursors, extract_reader_cursors_and_merger} and Merger::{into_stream_merger_iter, write_into_stream_writer} / MergerIter::next on all paths (counter abstraction): every Result of a callee is examined by `?` or returned, "
                     "never unwrapped or dropped on an Ok path, no panic reachable, convert_merge_error only on error types that cannot carry a merge error. Fault INJECTION into the k-th "
                     "call of real merge functions / chunk creators through whole sorter runs, MergerIter::next and closures passed to iterator adaptors stay outside.",
                quick_cmd="./check_C12.sh quick", thorough_cmd="./check_C12.sh thorough"),
    "C06": dict(claimed=True, design="§5 C06",
                text="Only the heap order is decided: Ord/PartialOrd/Eq of the merger's heap entries over three sources positioned on symbolic keys with symbolic "
                     "source indices is exactly the reverse lexicographic order on (key, source index) - the mechanism that makes equal keys pop, and their "
                     "values reach the merge function, in the order the sources were added. MergerIter::next itself (BinaryHeap + Vec<Cow> + cursor moves) did "
                     "not complete within 40 min / 20 GB for two one-entry sources and is outside.",
                note="Union/exactly-once-merge/streaming-into-writer are NOT decided by this check (outside, measured infeasible)."),
    "C02": dict(claimed=True, design="§5 C02",
                text="Layered, each layer decided by the solver over all keys/probes inside the bound: (L2) the real in-block ceiling/floor search equals the "
                     "sorted-array model from every pre-position, probe length 0..=3; (L3) the real multi-level seek glue over abstract blocks returns the exact "
                     "ceiling / match of a symbolic probe on fresh and reset cursors for every layout of the family (0..3 index levels, empty files); the "
                     "<= seek is decided as the real code over the contract of the >= seek, split into its three outcome classes. Counterexamples are replayed "
                     "through the public API on real bytes.",
                note="Composition of the layers (AC model, contracts) is the stated paper step; fan-out <= 3, <= 2 entries per data block, keys <= 2 bytes."),
    "C03": dict(claimed=True, design="§5 C03",
                text="History independence decided two ways: (H) concrete operation schemas with symbolic keys/probes around block- and index-block-crossing "
                     "patterns, clone and reset; (S) induction: one operation from EVERY cursor state satisfying the representation invariant (symbolic "
                     "state built directly), post-state re-establishes the invariant, base case = fresh cursor. Together: all histories of any length within "
                     "the layout bound. In-block moves are discharged against the real BlockCursor (L2).",
                note="RI (recorded offset truthful-or-foreign, path consistency) is checked inductive by the registered base/step harnesses; layout family bound as C02."),
    "C04": dict(claimed=True, design="§5 C04",
                text="Bound tests decided as a kernel for all bound kinds and strings <= 3 bytes; iteration decided by induction: first next() of a fresh "
                     "iterator (initial seek replaced by one outcome of its contract, both outcomes covered) yields the first in-range entry and "
                     "leaves RI-strong; every later next() from every RI-strong state yields the adjacent entry iff in range. Symbolic bound kinds and strings, no ordering assumed.",
                note="Seek contracts are discharged under C02; contiguity of in-range entries follows from sortedness (paper step)."),
    "C05": dict(claimed=True, design="§5 C05",
                text="advance_key decided as a kernel (prefix <= 4 bytes, keys <= 5 bytes: least upper bound of the prefixed keys, None iff empty/all-0xFF); "
                     "prefix iteration decided by the same first/step induction as C04 with symbolic prefix of length 0..=3 over keys of length 0..=2.",
                note="As C04."),
    "C16": dict(claimed=True, design="§5 C16",
                text="Open I/O decided over every valid trailer (2 seeks, 21/22 bytes, inside the last 22 bytes); per-operation block loads <= 2 x (levels + 2), each "
                     "preceded by exactly one absolute seek, asserted inside every glue harness (schemas and every-state step harnesses), i.e. for every "
                     "cursor state in the invariant, not only fresh cursors.",
                note="Independence from fan-out / file size is argued from the glue's structure (one block per level), not proved beyond fan-out 3."),
}

PROPS["C07"] = dict(claimed=False, na_reason="not applicable to solver-based checking here: the sorter's buffer (raw alloc + bytemuck casts + std sort) exceeds "
                    "20 GB of CBMC memory already for 2 inserts read back, and write_chunk/merge_chunks need the real writer->reader pipeline, which does not "
                    "terminate under CBMC (DESIGN.md §7); rayon scheduling is outside Kani. No partial claim is made.")
PROPS["C08"] = dict(claimed=True, engine="mirsmt", design="§10",
                    text="Induction over insert histories of any length, decided by SMT over the MIR of the real functions (64-bit bit-vectors): base = every Sorter "
                         "the builder can produce (all budgets, both reallocation policies, all max_nb_chunks, every subset of setters) satisfies the invariant; "
                         "step = one Sorter::insert (real MIR of insert, threshold_exceeded, Entries::fits/remaining/entry_size/insert/reallocate_buffer, "
                         "EntryBoundAlignedBuffer::new/deref/deref_mut/drop) from EVERY state of the invariant with an entry footprint <= budget/4 re-establishes it, "
                         "keeps the volume inserted since the last spill (== entries_len, itself proved) <= 2 x budget (<= budget when reallocation is off), "
                         "spills only when the entry does not fit, grows the buffer only below the budget and only when allowed, and never has more than max + 2 chunks alive.",
                    note="write_chunk / merge_chunks enter the step by their counter contracts (a chunk only from one ChunkCreator::create call, one chunk pushed, buffer cleared, merge drains "
                         "all and leaves one chunk); the contracts are themselves discharged against the real MIR of both functions in counter-abstraction mode (writer, merger, merge "
                         "function, iterators and I/O nondeterministic; loops closed by abstract-state fixpoint). Budget <= 2^36 (quick) / 2^44 (thorough); process heap high-water marks "
                         "are measurements and outside; a change that adds state the encoder has no value for is reported inconclusive (exit 2), not decided.")
PROPS["C17"] = dict(claimed=True, engine="mirsmt", design="§10",
                    text="Sorter buffer management only, decided by SMT over the MIR of the real functions: from EVERY state of the representation invariant (buffer length "
                         "<= 2^60, multiple of 16, equal to the live allocation's size) and every key/value length, Entries::insert / fits / remaining / entry_size / "
                         "reallocate_buffer and EntryBoundAlignedBuffer::new / deref / deref_mut / drop satisfy every obligation: no arithmetic overflow, every slice range inside "
                         "its slice, equal copy lengths, cast sizes and alignment, from_raw_parts inside one live allocation, non-zero-size alloc, valid layouts, dealloc layout == "
                         "alloc layout, no double free, no leak, bytes and bound table never overlap, the stored EntryBound describes the bytes just written; the invariant is re-established "
                         "(so the claim covers insert sequences of any length, repeated doubling, exact fit and entries larger than the buffer). Read side of the sorter buffer: "
                         "Entries::iter and sort_by_key with their closures hand out, for any stored bound satisfying the per-bound invariant that insert establishes, exactly the stored "
                         "key/value ranges, inside the byte region of the live allocation.",
                    note="NOT covered: the lifetime-extending transmutes of the READER side (block.rs, reader_cursor.rs, range_iter.rs, lib.rs) - aliasing/lifetime questions are not "
                         "expressible in this integer/allocation-identity encoding; that std's sort keeps the bound table a permutation (assumed); contents of the bytes; allocation "
                         "failure. Kani's pointer and overflow checks stay on in every harness of the other properties.")
TECH_MS = ("symbolic execution of the real code's MIR (rustc nightly -Zunpretty=mir, regenerated every run) into SMT: every overflow / range / allocation obligation and the "
           "inductive post-conditions are discharged by z3 / cvc5 over all 64-bit values inside the stated bounds; counterexamples are re-executed concretely")
NOT_YET = "check not built yet in this revision (work in progress; see DESIGN.md §5)"


def manifest():
    import json
    ids = [json.loads(l)["id"] for l in open(os.path.join(os.path.dirname(__file__), "properties.jsonl"))]
    checks, na = [], []
    for pid in ids:
        p = PROPS.get(pid)
        if not p or not p.get("claimed"):
            na.append({"property_id": pid, "reason": (p or {}).get("na_reason", NOT_YET)})
            continue
        c = {
            "property_id": pid,
            "quick_cmd": p.get("quick_cmd") or "./%s check %s --tier quick" % ("ms" if p.get("engine") == "mirsmt" else "vk", pid),
            "thorough_cmd": p.get("thorough_cmd") or "./%s check %s --tier thorough" % ("ms" if p.get("engine") == "mirsmt" else "vk", pid),
            "evidence_file": "/verif/evidence/%s.json" % pid,
            "replay_cmd_template": "cat {path}",
            "engine": p.get("engine", "kani"),
            "level_claimed": {"category": "model_checking", "text": p["text"], "design_ref": p["design"]},
            "level_note": p["note"],
            "technique": TECH_MS if p.get("engine") == "mirsmt" else TECH,
        }
        checks.append(c)
    return {
        "version": 1,
        "setup_cmd": "./vk setup",
        "hooks": {
            "guard": "kani",
            "enable": "no source hooks in /repo: vk copies the working tree to a scratch overlay and appends `#[cfg(kani)] mod verif_h;` "
                      "child modules (harness kit) there; cfg(kani) is set only by cargo-kani",
            "baseline_off_cmd": "cd /repo && cargo test --workspace --no-fail-fast --offline",
            "source_commits": [],
            "add_only": True,
        },
        "engines": [{"name": "kani", "path": "/verif/vk", "serves_properties": [c["property_id"] for c in checks if c["engine"] == "kani"],
                     "kind_free_text": "Kani 0.68 / CBMC 6.11 / CaDiCaL bounded model checking of grenad's compiled MIR through in-crate harness modules"},
                    {"name": "mirsmt", "path": "/verif/ms", "serves_properties": sorted([c["property_id"] for c in checks if c["engine"] == "mirsmt"] + ["C12"]),
                     "kind_free_text": "symbolic execution of rustc's MIR dump of the sorter module (regenerated from /repo on every run) into 64-bit bit-vector SMT queries; "
                                       "z3 5.1 with cvc5 1.0.3 (--solve-bv-as-int=sum) for the queries bit-blasting does not decide"}],
        "checks": checks,
        "not_applicable": na,
        "notes": "Exit codes of vk: 0 held, 1 VIOLATION (counterexample replayed natively), 2 inconclusive (resource-out / build failure / "
                 "non-reproducing counterexample). Exit codes of ms (MIR->SMT): 0 every obligation discharged and every cover witness reached, 1 VIOLATION (counterexample re-executed "
                 "concretely on the MIR; Entries-level ones also natively), 2 inconclusive (statement form or value the encoder does not know, solver undecided, recursion bound, "
                 "vacuity, implementation-derived growth-policy spec no longer matching). check_C12.sh = vk then ms for C12. Fix commits in /repo: see known_findings.json.",
    }


if __name__ == "__main__":
    import json
    import sys
    json.dump(manifest(), open(os.path.join(os.path.dirname(__file__), "MANIFEST.json"), "w"), indent=1)
    print("MANIFEST.json written")
