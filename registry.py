"""Harness registry: which kit file is injected where, and which harness decides what, under which bounds."""
import glob
import os

# source file in the overlay -> kit file injected as `#[cfg(kani)] mod verif_h;` (child module: private access)
INJECT = {
    "src/varint.rs": "varint_h.rs",
    "src/metadata.rs": "metadata_h.rs",
}

GLOBAL_ASSUMPTIONS = [
    "crate built with --no-default-features: only CompressionType::None executes; codecs are outside every claim",
    "Kani models the dev profile: debug assertions and overflow checks ON",
    "format!/panic message arguments are not evaluated (Kani assert override)",
    "every claim holds only inside the bounds listed per harness; unwinding assertions are ON so a too-small bound is reported",
]


def find_grenad_047():
    for p in glob.glob(os.path.expanduser("~/.cargo/registry/src/*/grenad-0.4.7")):
        return p
    return None


def H(name, props, tier="quick", **kw):
    d = dict(name=name, props=props, tier=tier)
    d.update(kw)
    return d


HARNESSES = [
    # ------------------------------------------------------------------------------------------- L0 kernels
    H("varint::verif_h::c14_codec", ["C14"], kind="K", layer="L0", timeout=300,
      decides="all 2^32 lengths: 1..=5 bytes, shortest form, byte-exact vs independent LEB128, decode(encoding ‖ junk) "
              "returns the value and consumes exactly the encoding",
      functions=["varint::varint_encode32", "varint::varint_decode32", "varint::varint_length_packed"],
      bounds="value: all u32; up to 5 arbitrary trailing bytes; unwind 7",
      outside="nothing inside the codec; materialised entries at 2^14..2^28 are covered by framing harnesses only below 2^7+"),
    # ------------------------------------------------------------------------------------------- trailer
    H("metadata::verif_h::c13_open", ["C13", "C10"], kind="K", layer="L2", timeout=600,
      decides="Reader::new over every byte string of length 0..=48: no panic; Ok iff the string ends in a complete V1/V2 "
              "trailer with known codec id; fields read from the specified positions",
      functions=["Reader::new", "Metadata::read_from", "CompressionType::from_u8", "std::io::Cursor seek/read", "byteorder reads"],
      bounds="len 0..=48 symbolic, content symbolic; unwind 10",
      outside="strings longer than 48 bytes (read_from touches only the last 22 bytes: c16_open_io)"),
    H("metadata::verif_h::c10_v1_trailer", ["C10"], kind="K", layer="L2", timeout=600,
      decides="every string ending in a V1 trailer (21 bytes, codec <= 5) opens as FormatV1 with offset/codec/count from the V1 "
              "positions and index_levels 0",
      functions=["Reader::new", "Metadata::read_from", "Reader::file_version/len/compression_type"],
      bounds="len 21..=48; all field values; unwind 10"),
    H("metadata::verif_h::c10_trailer_bytes_v1", ["C10"], kind="K", layer="L2", timeout=600,
      decides="Metadata::write_into(V1) emits the 21 specified bytes and Reader::new reads every field back",
      functions=["Metadata::write_into", "Metadata::read_from", "Reader::new"],
      bounds="all u64 offsets/counts, all 6 codec ids"),
    H("metadata::verif_h::c09_trailer_bytes_v2", ["C09", "C01"], kind="K", layer="L2", timeout=600,
      decides="Metadata::write_into(V2) emits exactly the 22 specified bytes (offset LE, codec id, count LE, levels, magic "
              "C4 D4 23 67) and Reader::new reads every field back (Reader::len = count written, codec = codec written)",
      functions=["Metadata::write_into", "Metadata::read_from", "Reader::new", "Reader::len", "Reader::compression_type"],
      bounds="all u64 offsets/counts, all 6 codec ids, all u8 levels"),
    H("metadata::verif_h::c16_open_io", ["C16"], kind="K", layer="L2", timeout=900,
      decides="opening performs 2 seeks and reads 22 (V2) / 21 (V1) bytes, all inside the last 22 bytes; into_cursor reads nothing",
      functions=["Reader::new", "Metadata::read_from", "Reader::into_cursor", "ReaderCursor::new"],
      stubs=["CountSrc: counting Read+Seek over a byte slice (harness kit)"],
      bounds="file length 22..=48, any content ending in a valid trailer"),
]


def harnesses_for(pid, tier, seed=0):
    hs = [h for h in HARNESSES if pid in h["props"]]
    if tier == "quick":
        hs = [h for h in hs if h["tier"] == "quick"]
    return hs


def native_replay(h, tests, decode, ov, scratch, env):
    return None, "native replayer not available for this harness"


# ------------------------------------------------------------------------------------------------ manifest data
TECH = "bounded model checking of the real code: Kani 0.68 -> CBMC 6.11 -> CaDiCaL over symbolic inputs, counterexamples replayed natively"

PROPS = {
    "C13": dict(claimed=True, design="§5 C13",
                text="Solver-decided for every byte string of length 0..=48 (length and content symbolic): Reader::new never panics and "
                     "returns Ok exactly when the string ends in a complete V1/V2 trailer with a known codec id, the predicate being "
                     "written independently over the raw bytes. Bounded model checking is the right level: the input space is finite "
                     "per length and the code is loop-free integer/byte logic, so the bound (48 bytes > trailer + 26 bytes of body) "
                     "covers every truncation/corruption class; longer files rely on open touching only the last 22 bytes (c16_open_io).",
                note="Kani/CBMC/CaDiCaL trusted; std::io::Cursor and byteorder are executed, not modelled; lengths > 48 outside."),
    "C14": dict(claimed=True, design="§5 C14",
                text="All 2^32 length values decided in one solver query against an independent LEB128 (length, shortest form, exact "
                     "bytes, decode of encoding‖junk returns the value and consumes exactly the encoding); framing use on write/read "
                     "decided for symbolic key/value lengths across the 2^7 boundary.",
                note="Entries materialised at 2^14/2^21/2^28 are outside (arrays of 16 KiB..256 MiB are not encodable); there the claim is "
                     "the codec kernel plus the framing harness showing framing uses only the codec's value and consumed length."),
    "C10": dict(claimed=True, design="§5 C10",
                text="Every byte string ending in a V1 trailer opens as FormatV1 with the fields at the V1 positions (all field values "
                     "symbolic); write_into(V1) is its inverse; cursor/iterator glue is shown not to depend on the file version.",
                note="V1 files with real codecs are outside (codecs not encodable). No V1 writer exists; the reference encoder provides the trailer."),
}

NOT_YET = "check not built yet in this revision (work in progress; see DESIGN.md §5)"


def manifest():
    import json
    ids = [json.loads(l)["id"] for l in open(os.path.join(os.path.dirname(__file__), "properties.jsonl"))]
    checks, na = [], []
    for pid in ids:
        p = PROPS.get(pid)
        if not p or not p.get("claimed"):
            na.append({"property_id": pid, "reason": (p or {}).get("na_reason", NOT_YET)})
            continue
        c = {
            "property_id": pid,
            "quick_cmd": "./vk check %s --tier quick" % pid,
            "thorough_cmd": "./vk check %s --tier thorough" % pid,
            "evidence_file": "/verif/evidence/%s.json" % pid,
            "replay_cmd_template": "cat {path}",
            "engine": "kani",
            "level_claimed": {"category": "model_checking", "text": p["text"], "design_ref": p["design"]},
            "level_note": p["note"],
            "technique": TECH,
        }
        checks.append(c)
    return {
        "version": 1,
        "setup_cmd": "./vk setup",
        "hooks": {
            "guard": "kani",
            "enable": "no source hooks in /repo: vk copies the working tree to a scratch overlay and appends `#[cfg(kani)] mod verif_h;` "
                      "child modules (harness kit) there; cfg(kani) is set only by cargo-kani",
            "baseline_off_cmd": "cd /repo && cargo test --workspace --no-fail-fast --offline",
            "source_commits": [],
            "add_only": True,
        },
        "engines": [{"name": "kani", "path": "/verif/vk", "serves_properties": [c["property_id"] for c in checks],
                     "kind_free_text": "Kani 0.68 / CBMC 6.11 / CaDiCaL bounded model checking of grenad's compiled MIR through in-crate harness modules"}],
        "checks": checks,
        "not_applicable": na,
        "notes": "Exit codes of vk: 0 held, 1 VIOLATION (counterexample replayed natively), 2 inconclusive (resource-out / build failure / "
                 "non-reproducing counterexample). Fix commits in /repo: see known_findings.json.",
    }


if __name__ == "__main__":
    import json
    import sys
    json.dump(manifest(), open(os.path.join(os.path.dirname(__file__), "MANIFEST.json"), "w"), indent=1)
    print("MANIFEST.json written")
