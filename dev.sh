#!/bin/bash
# dev helper: refresh a persistent overlay from /repo + /verif/kit and run the given harness names in parallel
# usage: dev.sh [-x extra.rs] harness...   (harness = full path or suffix after reader::reader_cursor::verif_h::)
D=/var/tmp/gvdev
mkdir -p $D
cd /verif && python3 -c "
import importlib.util,sys
from importlib.machinery import SourceFileLoader
vk=SourceFileLoader('vk','/verif/vk').load_module()
vk.make_overlay('$D')
"
if [ "$1" = "-x" ]; then cat "$2" >> $D/ov/verif_kit/cursor_gen.rs; shift; shift; fi
cd $D/ov
[ -d $D/tbase ] || cargo kani --no-default-features -Z stubbing -Z unstable-options --only-codegen --target-dir $D/tbase >/dev/null 2>&1
for h in "$@"; do
  t=$D/t_$(echo $h | tr ':' '_'); [ -d $t ] || cp -a $D/tbase $t
  ( ulimit -v 20000000; /usr/bin/time -f "%es %MKB" cargo kani --no-default-features -Z stubbing -Z unstable-options --harness $h --exact --output-format terse --no-assertion-reach-checks --target-dir $t ${KANI_EXTRA} > $D/out_$(echo $h | tr ':' '_').txt 2>&1 ) &
done
wait
for h in "$@"; do echo "=== $h"; grep -A14 "VERIFICATION RESULT\|^error" $D/out_$(echo $h | tr ':' '_').txt | grep -v "^$" | head -24; tail -1 $D/out_$(echo $h | tr ':' '_').txt; done
