//! Native replayer: realises an abstract (AC) file of an L3 counterexample as real bytes with an independent
//! encoder of the format, then runs the same operation schema through the PUBLIC API of the real crate (no
//! stubs, no cfg) and compares every result with the sorted-array oracle.
//! Exit 1 = the real code disagrees with the oracle (counterexample reproduced); 0 = all results agree.
use std::io::Cursor;
use std::ops::Bound;
use std::panic::{catch_unwind, AssertUnwindSafe};

use grenad::{MergeFunction, MergerBuilder, Reader, ReaderCursor};

/// order-sensitive merge function: concatenation of the values in the order they are handed over
struct Concat;
impl MergeFunction for Concat {
    type Error = std::convert::Infallible;
    fn merge<'a>(&self, _key: &[u8], values: &[std::borrow::Cow<'a, [u8]>]) -> Result<std::borrow::Cow<'a, [u8]>, Self::Error> {
        Ok(std::borrow::Cow::Owned(values.iter().flat_map(|v| v.iter().copied()).collect()))
    }
}

/// Confirms a heap-order counterexample through the public API: every assignment of non-empty subsets of the key set to
/// three sources is merged by the real Merger and compared with the oracle (keys ascending, each key's values
/// concatenated in the order the sources were added).
fn merge_search(keys: &[Vec<u8>]) -> Result<(), String> {
    let mut ks: Vec<Vec<u8>> = keys.to_vec();
    ks.push(vec![0x10]);
    ks.push(vec![0x20]);
    ks.push(vec![0x30]);
    ks.sort();
    ks.dedup();
    ks.truncate(4);
    let nk = ks.len();
    let subsets: Vec<u32> = (1..(1u32 << nk)).collect();
    for &a in &subsets {
        for &b in &subsets {
            for &c in &subsets {
                let masks = [a, b, c];
                let mut builder = MergerBuilder::new(Concat);
                for (si, m) in masks.iter().enumerate() {
                    let mut w = grenad::Writer::memory();
                    for (ki, k) in ks.iter().enumerate() {
                        if m & (1 << ki) != 0 {
                            w.insert(k, [b'a' + si as u8]).map_err(|e| e.to_string())?;
                        }
                    }
                    let bytes = w.into_inner().map_err(|e| e.to_string())?;
                    builder.push(Reader::new(Cursor::new(bytes)).map_err(|e| e.to_string())?.into_cursor().map_err(|e| e.to_string())?);
                }
                let mut it = builder.build().into_stream_merger_iter().map_err(|e| e.to_string())?;
                for (ki, k) in ks.iter().enumerate() {
                    let expect: Vec<u8> = masks.iter().enumerate().filter(|(_, m)| *m & (1 << ki) != 0).map(|(si, _)| b'a' + si as u8).collect();
                    if expect.is_empty() {
                        continue;
                    }
                    match it.next().map_err(|e| e.to_string())? {
                        Some((gk, gv)) => {
                            if gk != k.as_slice() || gv != expect.as_slice() {
                                return Err(format!("sources {:?} over keys {:?}: merged entry ({:?}, {:?}), expected ({:?}, {:?})", masks, ks, gk, gv, k, expect));
                            }
                        }
                        None => return Err(format!("sources {:?}: merger stopped early", masks)),
                    }
                }
                if it.next().map_err(|e| e.to_string())?.is_some() {
                    return Err(format!("sources {:?}: merger yields extra entries", masks));
                }
            }
        }
    }
    Ok(())
}

#[derive(Debug, Clone)]
enum Node {
    D(Vec<usize>),
    I(Vec<Node>),
}

fn parse_tree(s: &[u8], pos: &mut usize) -> Node {
    let kind = s[*pos];
    *pos += 1;
    assert_eq!(s[*pos], b'(');
    *pos += 1;
    let node = if kind == b'D' {
        let mut v = Vec::new();
        let mut cur = String::new();
        while s[*pos] != b')' {
            if s[*pos] == b',' {
                v.push(cur.parse().unwrap());
                cur.clear();
            } else {
                cur.push(s[*pos] as char);
            }
            *pos += 1;
        }
        if !cur.is_empty() {
            v.push(cur.parse().unwrap());
        }
        Node::D(v)
    } else {
        let mut v = Vec::new();
        while s[*pos] != b')' {
            if s[*pos] == b',' {
                *pos += 1;
                continue;
            }
            v.push(parse_tree(s, pos));
        }
        Node::I(v)
    };
    *pos += 1; // ')'
    node
}

fn varint(mut v: u32, out: &mut Vec<u8>) {
    loop {
        let b = (v & 0x7f) as u8;
        v >>= 7;
        if v == 0 {
            out.push(b);
            return;
        }
        out.push(b | 0x80);
    }
}

/// Encode one block (entries, offset table every `interval` entries, u32 BE count), length-prefixed.
fn emit_block(file: &mut Vec<u8>, entries: &[(Vec<u8>, Vec<u8>)], interval: usize) -> u64 {
    let off = file.len() as u64;
    let mut body = Vec::new();
    let mut offsets = vec![0u64];
    for (i, (k, v)) in entries.iter().enumerate() {
        if i > 0 && i % interval == 0 {
            offsets.push(body.len() as u64);
        }
        varint(k.len() as u32, &mut body);
        varint(v.len() as u32, &mut body);
        body.extend_from_slice(k);
        body.extend_from_slice(v);
    }
    for o in &offsets {
        body.extend_from_slice(&o.to_be_bytes());
    }
    body.extend_from_slice(&(offsets.len() as u32).to_be_bytes());
    file.extend_from_slice(&(body.len() as u64).to_be_bytes());
    file.extend_from_slice(&body);
    off
}

/// Returns (offset of the emitted block, last key of its subtree).
fn emit(node: &Node, keys: &[Vec<u8>], vals: &[Vec<u8>], file: &mut Vec<u8>, interval: usize) -> (u64, Option<Vec<u8>>) {
    match node {
        Node::D(idx) => {
            let ents: Vec<_> = idx.iter().map(|&i| (keys[i].clone(), vals[i].clone())).collect();
            let last = ents.last().map(|e| e.0.clone());
            (emit_block(file, &ents, interval), last)
        }
        Node::I(children) => {
            let mut ents = Vec::new();
            for c in children {
                let (off, last) = emit(c, keys, vals, file, interval);
                ents.push((last.expect("index entry over an empty child"), off.to_be_bytes().to_vec()));
            }
            let last = ents.last().map(|e| e.0.clone());
            (emit_block(file, &ents, interval), last)
        }
    }
}

fn build_file(tree: &Node, levels: u8, version: u8, keys: &[Vec<u8>], vals: &[Vec<u8>], interval: usize) -> Vec<u8> {
    let mut file = Vec::new();
    let (root, _) = emit(tree, keys, vals, &mut file, interval);
    file.extend_from_slice(&root.to_le_bytes());
    file.push(0); // CompressionType::None
    file.extend_from_slice(&(keys.len() as u64).to_le_bytes());
    if version == 2 {
        file.push(levels);
        file.extend_from_slice(&0x6723D4C4u32.to_le_bytes());
    } else {
        file.extend_from_slice(&0x76324D4Cu32.to_le_bytes());
    }
    file
}

fn hex(s: &str) -> Vec<u8> {
    if s == "-" {
        return Vec::new();
    }
    (0..s.len() / 2).map(|i| u8::from_str_radix(&s[2 * i..2 * i + 2], 16).unwrap()).collect()
}

type Cur = ReaderCursor<Cursor<Vec<u8>>>;

struct Model {
    pos: Option<usize>,
    valid: bool,
}

fn idx_of(r: Option<(&[u8], &[u8])>, keys: &[Vec<u8>], vals: &[Vec<u8>]) -> Result<Option<usize>, String> {
    match r {
        None => Ok(None),
        Some((k, v)) => match keys.iter().position(|x| x.as_slice() == k) {
            Some(i) if vals[i].as_slice() == v => Ok(Some(i)),
            Some(i) => Err(format!("key {} returned with a foreign value {:?}", i, v)),
            None => Err(format!("returned a key that was never stored: {:?}", k)),
        },
    }
}

fn probe_of<'a>(arg: &str, keys: &'a [Vec<u8>], sym: &'a [u8]) -> &'a [u8] {
    if arg == "sym" {
        sym
    } else {
        &keys[arg.parse::<usize>().unwrap()]
    }
}

/// Apply one simple op; Ok(None) = nothing to compare (reset), Ok(Some((got, expect))).
fn step(c: &mut Cur, m: &mut Model, op: &str, keys: &[Vec<u8>], vals: &[Vec<u8>], sym: &[u8]) -> Result<Option<(Option<usize>, Option<usize>)>, String> {
    let n = keys.len();
    let (name, arg) = match op.find(':') {
        Some(i) => (&op[..i], &op[i + 1..]),
        None => (op, ""),
    };
    let io = |e: grenad::Error| format!("unexpected Err: {}", e);
    let (got, expect) = match name {
        "first" => (idx_of(c.move_on_first().map_err(io)?, keys, vals)?, if n > 0 { Some(0) } else { None }),
        "last" => (idx_of(c.move_on_last().map_err(io)?, keys, vals)?, n.checked_sub(1)),
        "next" => {
            if !m.valid {
                return Err("schema issues a relative move after None (unspecified)".into());
            }
            let e = match m.pos {
                None => if n > 0 { Some(0) } else { None },
                Some(i) => if i + 1 < n { Some(i + 1) } else { None },
            };
            (idx_of(c.move_on_next().map_err(io)?, keys, vals)?, e)
        }
        "prev" => {
            if !m.valid {
                return Err("schema issues a relative move after None (unspecified)".into());
            }
            let e = match m.pos {
                None => n.checked_sub(1),
                Some(i) => i.checked_sub(1),
            };
            (idx_of(c.move_on_prev().map_err(io)?, keys, vals)?, e)
        }
        "ge" => {
            let q = probe_of(arg, keys, sym);
            (idx_of(c.move_on_key_greater_than_or_equal_to(q).map_err(io)?, keys, vals)?, keys.iter().position(|k| k.as_slice() >= q))
        }
        "le" => {
            let q = probe_of(arg, keys, sym);
            (idx_of(c.move_on_key_lower_than_or_equal_to(q).map_err(io)?, keys, vals)?, keys.iter().rposition(|k| k.as_slice() <= q))
        }
        "eq" => {
            let q = probe_of(arg, keys, sym);
            (idx_of(c.move_on_key_equal_to(q).map_err(io)?, keys, vals)?, keys.iter().position(|k| k.as_slice() == q))
        }
        "reset" => {
            c.reset();
            m.pos = None;
            m.valid = true;
            return Ok(None);
        }
        "current" => {
            if !m.valid {
                return Ok(None);
            }
            return Ok(Some((idx_of(c.current(), keys, vals)?, m.pos)));
        }
        other => return Err(format!("unknown op {}", other)),
    };
    match expect {
        Some(i) => {
            m.pos = Some(i);
            m.valid = true;
        }
        None => m.valid = false,
    }
    Ok(Some((got, expect)))
}

fn run_cursor(file: Vec<u8>, ops: &[String], keys: &[Vec<u8>], vals: &[Vec<u8>], sym: &[u8]) -> Result<(), String> {
    let mut c = Reader::new(Cursor::new(file)).map_err(|e| format!("open failed: {}", e))?.into_cursor().map_err(|e| format!("{}", e))?;
    let mut m = Model { pos: None, valid: true };
    for (i, op) in ops.iter().enumerate() {
        if op == "clone" {
            c = c.clone();
            continue;
        }
        if let Some(inner) = op.strip_prefix("fork:") {
            let mut c2 = c.clone();
            let mut m2 = Model { pos: m.pos, valid: m.valid };
            if let Some((g, e)) = step(&mut c2, &mut m2, inner, keys, vals, sym).map_err(|e| format!("op #{} {} (clone): {}", i, op, e))? {
                if g != e {
                    return Err(format!("op #{} `{}` on the clone returned entry {:?}, the sorted content determines {:?}", i, inner, g, e));
                }
            }
            if let Some((g, e)) = step(&mut c, &mut m, inner, keys, vals, sym).map_err(|e| format!("op #{} {}: {}", i, op, e))? {
                if g != e {
                    return Err(format!("op #{} `{}` on the original (after its clone moved) returned entry {:?}, expected {:?}", i, inner, g, e));
                }
            }
            continue;
        }
        if let Some((g, e)) = step(&mut c, &mut m, op, keys, vals, sym).map_err(|e| format!("op #{} {}: {}", i, op, e))? {
            if g != e {
                return Err(format!("op #{} `{}` returned entry {:?}, the sorted content determines {:?}", i, op, g, e));
            }
        }
    }
    Ok(())
}

/// Bounded exhaustive search over operation histories (public API only): used to confirm that a violation the
/// solver found from a symbolic cursor state is reachable from a fresh cursor. DFS, cloning the cursor per branch.
fn search(c: &Cur, m: &Model, depth: usize, alphabet: &[String], keys: &[Vec<u8>], vals: &[Vec<u8>], sym: &[u8], trail: &mut Vec<String>,
          deadline: std::time::Instant) -> Result<(), String> {
    if depth == 0 || std::time::Instant::now() > deadline {
        return Ok(());
    }
    for op in alphabet {
        if (op == "next" || op == "prev") && !m.valid {
            continue;
        }
        let mut c2 = c.clone();
        let mut m2 = Model { pos: m.pos, valid: m.valid };
        trail.push(op.clone());
        let r = catch_unwind(AssertUnwindSafe(|| step(&mut c2, &mut m2, op, keys, vals, sym)));
        match r {
            Err(_) => return Err(format!("history {:?}: the real crate panicked", trail)),
            Ok(Err(e)) => return Err(format!("history {:?}: {}", trail, e)),
            Ok(Ok(Some((g, e)))) if g != e => {
                return Err(format!("history {:?}: last op returned entry {:?}, the sorted content determines {:?}", trail, g, e));
            }
            Ok(Ok(_)) => {}
        }
        // current() must equal the last returned entry
        if m2.valid {
            if let Ok(cur) = idx_of(c2.current(), keys, vals) {
                if cur != m2.pos && !(op == "reset") {
                    return Err(format!("history {:?}: current() = {:?} but the last returned entry is {:?}", trail, cur, m2.pos));
                }
            }
        }
        search(&c2, &m2, depth - 1, alphabet, keys, vals, sym, trail, deadline)?;
        trail.pop();
    }
    Ok(())
}

/// Source whose k-th read/seek call fails (shared state so that the scan can see whether the fault fired).
struct FaultySrc {
    inner: Cursor<Vec<u8>>,
    st: std::rc::Rc<std::cell::Cell<(u32, u32, bool)>>, // (calls so far, fail_at, fired)
}
impl FaultySrc {
    fn tick(&self) -> std::io::Result<()> {
        let (c, f, fired) = self.st.get();
        let c = c + 1;
        if c == f {
            self.st.set((c, f, true));
            return Err(std::io::Error::new(std::io::ErrorKind::Other, "injected"));
        }
        self.st.set((c, f, fired));
        Ok(())
    }
}
impl std::io::Read for FaultySrc {
    fn read(&mut self, buf: &mut [u8]) -> std::io::Result<usize> {
        self.tick()?;
        self.inner.read(buf)
    }
}
impl std::io::Seek for FaultySrc {
    fn seek(&mut self, to: std::io::SeekFrom) -> std::io::Result<u64> {
        self.tick()?;
        self.inner.seek(to)
    }
}

/// Confirms a read-fault counterexample through the public API: full forward and backward scans with the k-th I/O call
/// failing, for every k: the call during which the fault fires must return Err; it must never be reported as Ok.
fn fault_scan(file: &[u8], n: usize) -> Result<(), String> {
    for forward in [true, false] {
        for k in 1..400u32 {
            let st = std::rc::Rc::new(std::cell::Cell::new((0u32, k, false)));
            let src = FaultySrc { inner: Cursor::new(file.to_vec()), st: st.clone() };
            let reader = match Reader::new(src) {
                Ok(r) => r,
                Err(_) => {
                    if st.get().2 { continue } else { return Err(format!("open failed without a fault (k={})", k)) }
                }
            };
            let mut c = reader.into_cursor().map_err(|e| e.to_string())?;
            let mut seen = 0usize;
            loop {
                let before = st.get().2;
                let r = if forward { c.move_on_next() } else { c.move_on_prev() };
                let fired_now = st.get().2 && !before;
                match r {
                    Ok(Some(_)) => {
                        if fired_now {
                            return Err(format!("k={} {}: the source failed during the call but the call returned an entry", k, if forward { "next" } else { "prev" }));
                        }
                        seen += 1;
                    }
                    Ok(None) => {
                        if fired_now {
                            return Err(format!("k={} {} scan: the source failed during the call but the call returned Ok(None) after {} of {} entries (error swallowed)",
                                               k, if forward { "forward" } else { "backward" }, seen, n));
                        }
                        if seen != n {
                            return Err(format!("k={}: scan ended after {} of {} entries without an error", k, seen, n));
                        }
                        break;
                    }
                    Err(_) => {
                        if !fired_now {
                            return Err(format!("k={}: an error was reported although no fault fired during the call", k));
                        }
                        break;
                    }
                }
            }
            if !st.get().2 && k > 1 {
                break; // k beyond the number of I/O calls of a full scan
            }
        }
    }
    Ok(())
}

fn bound_of(kind: &str, bytes: &[u8]) -> Bound<Vec<u8>> {
    match kind {
        "U" => Bound::Unbounded,
        "I" => Bound::Included(bytes.to_vec()),
        _ => Bound::Excluded(bytes.to_vec()),
    }
}

fn in_range(k: &[u8], lo: &Bound<Vec<u8>>, hi: &Bound<Vec<u8>>) -> bool {
    (match lo {
        Bound::Unbounded => true,
        Bound::Included(a) => k >= a.as_slice(),
        Bound::Excluded(a) => k > a.as_slice(),
    }) && (match hi {
        Bound::Unbounded => true,
        Bound::Included(b) => k <= b.as_slice(),
        Bound::Excluded(b) => k < b.as_slice(),
    })
}

fn collect<F: FnMut() -> Result<Option<(Vec<u8>, Vec<u8>)>, String>>(mut next: F, limit: usize) -> Result<Vec<Vec<u8>>, String> {
    let mut out = Vec::new();
    while let Some((k, _)) = next()? {
        out.push(k);
        if out.len() > limit {
            return Err("iterator yields more entries than the file holds".into());
        }
    }
    Ok(out)
}

fn main() {
    let spec = std::fs::read_to_string(std::env::args().nth(1).expect("spec file")).unwrap();
    let mut levels = 0u8;
    let mut version = 2u8;
    let mut interval = 1usize;
    let mut tree = Node::I(vec![]);
    let mut keys: Vec<Vec<u8>> = Vec::new();
    let mut sym: Vec<u8> = Vec::new();
    let mut sym2: Vec<u8> = Vec::new();
    let mut ops: Vec<String> = Vec::new();
    let mut mode = "cursor".to_string();
    let mut args: Vec<String> = Vec::new();
    for line in spec.lines() {
        let mut it = line.split_whitespace();
        match it.next() {
            Some("levels") => levels = it.next().unwrap().parse().unwrap(),
            Some("version") => version = it.next().unwrap().parse().unwrap(),
            Some("interval") => interval = it.next().unwrap().parse().unwrap(),
            Some("tree") => {
                let s = it.next().unwrap().as_bytes().to_vec();
                tree = parse_tree(&s, &mut 0);
            }
            Some("key") => keys.push(hex(it.next().unwrap())),
            Some("probe") => sym = hex(it.next().unwrap()),
            Some("probe2") => sym2 = hex(it.next().unwrap()),
            Some("ops") => ops = it.map(|s| s.to_string()).collect(),
            Some("mode") => {
                mode = it.next().unwrap().to_string();
                args = it.map(|s| s.to_string()).collect();
            }
            _ => {}
        }
    }
    for w in keys.windows(2) {
        if mode != "mergesearch" && w[0] >= w[1] {
            println!("SPEC-INVALID keys not strictly ascending");
            std::process::exit(3);
        }
    }
    let vals: Vec<Vec<u8>> = (0..keys.len()).map(|i| vec![100 + i as u8]).collect();
    let file = build_file(&tree, levels, version, &keys, &vals, interval);
    let res = catch_unwind(AssertUnwindSafe(|| -> Result<(), String> {
        match mode.as_str() {
            "mergesearch" => merge_search(&keys),
            "faultscan" => fault_scan(&file, keys.len()),
            "cursor" => run_cursor(file, &ops, &keys, &vals, &sym),
            "search" => {
                let depth: usize = args.get(0).and_then(|a| a.parse().ok()).unwrap_or(6);
                let c = Reader::new(Cursor::new(file)).map_err(|e| format!("open failed: {}", e))?.into_cursor().map_err(|e| format!("{}", e))?;
                let mut alphabet: Vec<String> = vec!["first".into(), "last".into(), "next".into(), "prev".into(), "reset".into(),
                                                     "ge:sym".into(), "le:sym".into(), "eq:sym".into()];
                for j in 0..keys.len() {
                    alphabet.push(format!("ge:{}", j));
                    alphabet.push(format!("le:{}", j));
                }
                let deadline = std::time::Instant::now() + std::time::Duration::from_secs(100);
                for d in 1..=depth {
                    search(&c, &Model { pos: None, valid: true }, d, &alphabet, &keys, &vals, &sym, &mut Vec::new(), deadline)?;
                }
                Ok(())
            }
            "range" | "revrange" => {
                let lo = bound_of(&args[0], &sym);
                let hi = bound_of(&args[1], &sym2);
                let mut expect: Vec<Vec<u8>> = keys.iter().filter(|k| in_range(k, &lo, &hi)).cloned().collect();
                let reader = Reader::new(Cursor::new(file)).map_err(|e| format!("open: {}", e))?;
                let got = if mode == "range" {
                    let mut it = reader.into_range_iter((lo, hi)).map_err(|e| format!("{}", e))?;
                    collect(|| it.next().map(|o| o.map(|(k, v)| (k.to_vec(), v.to_vec()))).map_err(|e| format!("{}", e)), keys.len())?
                } else {
                    expect.reverse();
                    let mut it = reader.into_rev_range_iter((lo, hi)).map_err(|e| format!("{}", e))?;
                    collect(|| it.next().map(|o| o.map(|(k, v)| (k.to_vec(), v.to_vec()))).map_err(|e| format!("{}", e)), keys.len())?
                };
                if got != expect {
                    return Err(format!("{} iterator yielded {:?}, the in-range entries are {:?}", mode, got, expect));
                }
                Ok(())
            }
            "prefix" | "revprefix" => {
                let mut expect: Vec<Vec<u8>> = keys.iter().filter(|k| k.starts_with(&sym)).cloned().collect();
                let reader = Reader::new(Cursor::new(file)).map_err(|e| format!("open: {}", e))?;
                let got = if mode == "prefix" {
                    let mut it = reader.into_prefix_iter(sym.clone()).map_err(|e| format!("{}", e))?;
                    collect(|| it.next().map(|o| o.map(|(k, v)| (k.to_vec(), v.to_vec()))).map_err(|e| format!("{}", e)), keys.len())?
                } else {
                    expect.reverse();
                    let mut it = reader.into_rev_prefix_iter(sym.clone()).map_err(|e| format!("{}", e))?;
                    collect(|| it.next().map(|o| o.map(|(k, v)| (k.to_vec(), v.to_vec()))).map_err(|e| format!("{}", e)), keys.len())?
                };
                if got != expect {
                    return Err(format!("{} iterator yielded {:?}, entries with the prefix are {:?}", mode, got, expect));
                }
                Ok(())
            }
            other => Err(format!("unknown mode {}", other)),
        }
    }));
    match res {
        Ok(Ok(())) => {
            println!("AGREE: the real crate returns what the oracle determines on this input");
            std::process::exit(0);
        }
        Ok(Err(msg)) => {
            println!("REPRODUCED: {}", msg);
            std::process::exit(1);
        }
        Err(_) => {
            println!("REPRODUCED: the real crate panicked on this input");
            std::process::exit(1);
        }
    }
}
