#!/bin/bash
# usage: mut_test.sh <patch.diff> <vk args...>   -- apply a seeded change to /repo, run vk, undo
set -u
P=$1; shift
git -C /repo apply "$P" || { echo "patch does not apply"; exit 3; }
cd /verif && ./vk "$@"; rc=$?
git -C /repo checkout -- . 
echo "mut_test rc=$rc"
exit $rc
