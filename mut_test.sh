#!/bin/bash
# usage: mut_test.sh <patch.diff> <vk args...>
# Development helper: applies a seeded change to a scratch COPY of /repo and runs vk against that copy (VERIF_REPO),
# so that /repo itself is never touched and several mutants can be tried in parallel.
# (Final confirmation of a kept seeded change is done the documented way: git -C /repo apply; run; git checkout.)
set -u
P=$1; shift
D=/var/tmp/mutrepo.$$
rsync -a --exclude /target /repo/ $D/
( cd $D && git apply "$P" ) || { echo "patch does not apply"; rm -rf $D; exit 3; }
cd /verif && VERIF_REPO=$D ./vk "$@"; rc=$?
rm -rf $D
echo "mut_test rc=$rc"
exit $rc
